#!/venv/bin/python
"""Regenerates MANIFEST.json from efa/properties.py and the rule registry (kept valid at all times)."""
import json, os, sys
sys.path.insert(0, os.path.dirname(os.path.abspath(__file__)))
from efa.properties import PROPS
from efa.rules import RULES, load_all
load_all()
BASELINE = json.load(open("/root/.vp/BASELINE.json"))
checks, na = [], []
NARROW = {"C03", "C04", "C06", "C11", "C15", "C19", "C20"}
for p in sorted(PROPS):
    spec = PROPS[p]
    rules = [r for r in spec["rules"] if r.split(":")[0] in RULES]
    if not rules:
        na.append({"property_id": p, "reason": "no rule of this family is built for it yet: " + ", ".join(spec["rules"])})
        continue
    narrow = " (narrow claim: only the clause(s) named here)" if p in NARROW else ""
    checks.append({
        "property_id": p,
        "quick_cmd": f"/venv/bin/python /verif/check {p} --tier quick",
        "thorough_cmd": f"/venv/bin/python /verif/check {p} --tier thorough",
        "evidence_file": f"/verif/evidence/{p}.json",
        "replay_cmd_template": "/venv/bin/python /verif/check --show {path}",
        "engine": "efa",
        "level_claimed": {
            "category": "other",
            "text": f"Static analysis{narrow}: decides, for every instance enumerated from the current source, "
                    f"{spec['decided']}. These are necessary conditions of the property that hold or fail for every "
                    f"input at once; the behaviour itself is not executed. Not decided: {spec['not_decided']}.",
            "design_ref": "DESIGN.md §5, §6"},
        "level_note": "Trusted: CPython's ast parser; pint, pint-pandas, pandas, numpy implement their documented "
                      "API; the analyser's frozen operator summaries and idiom tables (re-derived from the source "
                      "and cross-checked in the thorough tier). Abstraction: one abstract object per concrete public "
                      "class. Rules used: " + ", ".join(rules) + ".",
        "technique": "repository-specific static analysis: ast front end + abstract interpretation of update rules "
                     "(provenance/degree/kind domains) + syntax-directed table, pairing and ordering rules"})
man = {
    "version": 1,
    "setup_cmd": "true",
    "hooks": {"guard": "BOAVIZTA_E_FOOTPRINT_VERIF", "enable": "no hooks: the analysis reads source only",
              "baseline_off_cmd": BASELINE["cmd"].replace("--junitxml=<file>", "").strip(),
              "source_commits": [], "add_only": True},
    "engines": [{"name": "efa", "path": "/verif/efa", "serves_properties": [c["property_id"] for c in checks],
                 "kind_free_text": "static analyser (stdlib ast), never imports efootprint"}],
    "checks": checks,
    "not_applicable": na,
    "notes": "All checks are static analyses run by /venv/bin/python (3.12; the system python cannot parse the "
             "repository). Exit 2 = ANALYSIS-ERROR (fail closed). Known findings: /verif/known_findings.json."}
json.dump(man, open(os.path.join(os.path.dirname(os.path.abspath(__file__)), "MANIFEST.json"), "w"), indent=1)
print(len(checks), "checks,", len(na), "not applicable")
