from _base import *
from efootprint.core.hardware.gpu_server import GPUServer
from efootprint.builders.services.generative_ai_ecologits import GenAIModel, GenAIJob
def mk(on_second):
    g1 = GPUServer.from_defaults("g1", storage=Storage.ssd("s1")); g2 = GPUServer.from_defaults("g2", storage=Storage.ssd("s2"), ram_per_gpu=SourceValue(40*u.GB/u.gpu))
    model = GenAIModel.from_defaults("model", server=g2 if on_second else g1)
    job = GenAIJob.from_defaults("gj", service=model)
    step = UsageJourneyStep("s", SourceValue(1*u.min), [job]); uj = UsageJourney("uj", [step])
    up = UsagePattern("up", uj, [Device.laptop()], Network.wifi_network(), Countries.FRANCE(), hv([10,20,30,40]))
    return System("sys", [up]), model, job, g1, g2
s, model, job, g1, g2 = mk(False)
print("before: compute_needed", job.compute_needed, "| g1 raw", g1.raw_nb_of_instances.value_as_float_list[:2])
model.server = g2
fs, fmodel, fjob, fg1, fg2 = mk(True)
print("edited : compute_needed", job.compute_needed, "| g2 raw", [round(x,4) for x in g2.raw_nb_of_instances.value_as_float_list[:2]], "| g2 energy", [round(x,6) for x in g2.energy_footprint.value_as_float_list[:2]])
print("rebuilt: compute_needed", fjob.compute_needed, "| g2 raw", [round(x,4) for x in fg2.raw_nb_of_instances.value_as_float_list[:2]], "| g2 energy", [round(x,6) for x in fg2.energy_footprint.value_as_float_list[:2]])
