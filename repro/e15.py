from _base import *
m = build(); up = m["up"]; j = m["j"]
up.compute_calculated_attributes()
bad = []
for o in [m["s"]] + m["s"].all_linked_objects:
    for a in o.calculated_attributes:
        v = getattr(o, a); vals = list(v.values()) if isinstance(v, dict) else [v]
        for x in vals:
            for anc in x.direct_ancestors_with_id:
                if anc.modeling_obj_container is None: bad.append((o.name, a))
print("E15 values listing a detached ancestor after up.compute_calculated_attributes():", sorted(set(bad)))
try:
    up.hourly_usage_journey_starts = hv([2,2,2,2,2,2,2,2]); print("later edit ok")
except Exception as e:
    print("later edit raised", type(e).__name__, str(e)[:90])
