"""F20 (C14): an assignment refused by validation must leave every input as it was.
j2.data_transferred = j1.data_transferred (a value that already belongs to j1) is refused with PermissionError; before the
fix the refusal came after the store and the rollback went through the new value's container: j2 ended up holding j1's
value and j1 holding j2's old value. Found by the all-or-nothing clause of R-ATTACH and the rollback clause of R-TXN.
Run: cd /verif/repro && PYTHONPATH=/repo /venv/bin/python e25_refused_assignment_swaps_values.py"""
import logging
from efootprint.logger import logger
logger.setLevel(logging.ERROR)
from efootprint.core.usage.job import Job
from efootprint.core.hardware.server import Server
from efootprint.core.hardware.storage import Storage
from efootprint.abstract_modeling_classes.source_objects import SourceValue
from efootprint.constants.units import u
srv = Server.from_defaults("s", storage=Storage.ssd())
j1 = Job.from_defaults("j1", server=srv)
j2 = Job.from_defaults("j2", server=srv)
j1.data_transferred = SourceValue(7 * u.MB)
before = (j1.data_transferred.value, j2.data_transferred.value, id(j1.data_transferred), id(j2.data_transferred))
print("before", before[:2])
try:
    j2.data_transferred = j1.data_transferred      # a value already attached to j1
    print("accepted")
except Exception as e:
    print("refused:", type(e).__name__, str(e)[:100])
print("after ", j1.data_transferred.value, j2.data_transferred.value, "same objects:", id(j1.data_transferred)==before[2], id(j2.data_transferred)==before[3])
print("containers:", j1.data_transferred.modeling_obj_container.name if j1.data_transferred.modeling_obj_container else None, j1.data_transferred.attr_name_in_mod_obj_container,
      "|", j2.data_transferred.modeling_obj_container.name if j2.data_transferred.modeling_obj_container else None)

ok = (str(j1.data_transferred.value), str(j2.data_transferred.value)) == ("7 megabyte", "150 kilobyte") and id(j1.data_transferred) == before[2] and id(j2.data_transferred) == before[3]
print("OK: nothing changed" if ok else "DEFECT: the refused assignment changed the model")
raise SystemExit(0 if ok else 1)
