from _base import *
def snap(m):
    out = {}
    for o in [m["s"]] + m["s"].all_linked_objects:
        for a in o.calculated_attributes:
            out[(type(o._value).__name__ if hasattr(o,"_value") else type(o).__name__, a)] = str(getattr(o, a))
    return out
m = build(); srv = m["srv"]
try: srv.base_ram_consumption = SourceValue(1000*u.GB)
except ValueError as e: print("failed edit ok; input now:", srv.base_ram_consumption)
srv.ram = SourceValue(256*u.GB)
f = build(); f["srv"].ram = SourceValue(256*u.GB)
a, b = snap(m), snap(f)
print("post-failure edit equals fresh:", a == b, [k for k in a if a[k] != b[k]][:5])
