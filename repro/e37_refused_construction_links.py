"""F31 (C14) — a constructor that refuses one of its inputs has already linked the half-built object into the model.

The constructors of five classes call `super().__init__(...)` — which assigns the link to the service / the storage — and
only then assign their own inputs. When one of those is refused (wrong dimension, value outside the allowed list) the
exception leaves the constructor, but the object it was building is already registered with the linked object: the service
and its server list a job that does not exist, the storage reports a server that was never built.
Expected (C14: "a value ... outside the attribute's allowed list is refused with an error both at construction and on later
assignment. An assignment refused by validation leaves every input, link and calculated value of the model exactly as it
was"): after the refusal the links of the model are as before."""
from efootprint.abstract_modeling_classes.source_objects import SourceObject, SourceValue
from efootprint.builders.hardware.boavizta_cloud_server import BoaviztaCloudServer
from efootprint.builders.services.generative_ai_ecologits import GenAIModel, GenAIJob
from efootprint.builders.services.video_streaming import VideoStreaming, VideoStreamingJob
from efootprint.builders.services.web_application import WebApplication, WebApplicationJob
from efootprint.constants.units import u
from efootprint.core.hardware.gpu_server import GPUServer
from efootprint.core.hardware.server import Server
from efootprint.core.hardware.storage import Storage

problems = []


def refused(label, build, holders):
    before = [list(h()) for h in holders]
    try:
        build()
        print(f"{label}: accepted (nothing to show)")
        return
    except Exception as e:
        err = f"{type(e).__name__}: {str(e)[:70]}"
    after = [list(h()) for h in holders]
    if after != before:
        problems.append(label)
        print(f"{label}: refused ({err}) but the model now lists {[[getattr(o, 'name', o) for o in a] for a in after]}")
    else:
        print(f"{label}: refused, links unchanged")


server = Server.from_defaults("server", storage=Storage.ssd("ssd"))
app = WebApplication.from_defaults("app", server=server)
refused("WebApplicationJob.implementation_details",
        lambda: WebApplicationJob.from_defaults("bad", service=app, implementation_details=SourceObject("nonsense")),
        [lambda: app.jobs, lambda: server.jobs])
video = VideoStreaming.from_defaults("video", server=server)
refused("VideoStreamingJob.video_duration",
        lambda: VideoStreamingJob.from_defaults("bad", service=video, video_duration=SourceValue(3 * u.kg)),
        [lambda: video.jobs])
refused("VideoStreamingJob.refresh_rate",
        lambda: VideoStreamingJob.from_defaults("bad", service=video, refresh_rate=SourceValue(3 * u.kg)),
        [lambda: video.jobs])
gpu_storage = Storage.ssd("gpu ssd")
refused("GPUServer.gpu_power",
        lambda: GPUServer.from_defaults("bad gpu server", storage=gpu_storage, gpu_power=SourceValue(3 * u.kg)),
        [lambda: gpu_storage.modeling_obj_containers])
refused("GPUServer.ram_per_gpu",
        lambda: GPUServer.from_defaults("bad gpu server", storage=gpu_storage, ram_per_gpu=SourceValue(3 * u.kg)),
        [lambda: gpu_storage.modeling_obj_containers])
for attr in ("gpu_idle_power", "carbon_footprint_fabrication_without_gpu", "carbon_footprint_fabrication_per_gpu"):
    refused(f"GPUServer.{attr}",
            lambda attr=attr: GPUServer.from_defaults("bad gpu server", storage=gpu_storage, **{attr: SourceValue(3 * u.s)}),
            [lambda: gpu_storage.modeling_obj_containers])
refused("VideoStreamingJob.resolution",
        lambda: VideoStreamingJob.from_defaults("bad", service=video, resolution=SourceObject("no such resolution")),
        [lambda: video.jobs])
cloud_storage = Storage.ssd("cloud ssd")
refused("BoaviztaCloudServer.provider",
        lambda: BoaviztaCloudServer.from_defaults("bad cloud server", storage=cloud_storage, provider=SourceObject("nobody")),
        [lambda: cloud_storage.modeling_obj_containers])
refused("BoaviztaCloudServer.instance_type",
        lambda: BoaviztaCloudServer.from_defaults("bad cloud server", storage=cloud_storage,
                                                  instance_type=SourceObject("no-such-instance")),
        [lambda: cloud_storage.modeling_obj_containers])
try:
    gpu_server = GPUServer.from_defaults("gpu server", storage=Storage.ssd("ssd 3"))
    genai = GenAIModel.from_defaults("genai", server=gpu_server)
    refused("GenAIJob.output_token_count",
            lambda: GenAIJob.from_defaults("bad", service=genai, output_token_count=SourceValue(3 * u.kg)),
            [lambda: genai.jobs])
except Exception as e:       # ecologits data may be unavailable offline
    print("GenAIJob: not exercised here:", type(e).__name__, str(e)[:60])
print("PROBLEMS:", problems)
raise SystemExit(1 if problems else 0)
