"""F18 (C16): `step.jobs *= n` must hold n times the initial content, like a Python list. Before fix 980a65a the replay on
the receiver extended the list with a copy of its *current* content (doubling at every step) and did nothing for n <= 0;
`obj.attr *= n` assigns the receiver back to the attribute, so that is what the model held. Found by R-LISTSIB's replay
clause. Run: cd /verif/repro && PYTHONPATH=/repo /venv/bin/python e23_imul_doubles.py"""
import logging
from efootprint.logger import logger
logger.setLevel(logging.ERROR)
from efootprint.core.usage.job import Job
from efootprint.core.hardware.server import Server
from efootprint.core.hardware.storage import Storage
from efootprint.core.usage.usage_journey_step import UsageJourneyStep
from efootprint.abstract_modeling_classes.source_objects import SourceValue
from efootprint.constants.units import u

srv = Server.from_defaults("s", storage=Storage.ssd())
j = Job.from_defaults("j", server=srv)
bad = []
for n in (0, 2, 3, 4):        # n = 1 is the no-op case of known finding F6
    step = UsageJourneyStep(f"st{n}", user_time_spent=SourceValue(1 * u.min), jobs=[j])
    ref = [j]
    ref *= n
    step.jobs *= n
    print(f"*= {n}: python list {len(ref)} element(s), step.jobs {len(step.jobs)} element(s)")
    if len(ref) != len(step.jobs):
        bad.append(n)
print("DEFECT for n in", bad if bad else "nothing: OK")
raise SystemExit(1 if bad else 0)
