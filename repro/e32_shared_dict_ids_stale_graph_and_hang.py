"""F8, two more manifestations (C08 / C01): every entry of a per-usage-pattern dict has the same id
(`<attr>-in-<object id>`), and the update order (attr_updates_chain) keeps its bookkeeping by id.
Two journeys that share their steps in a different order (two jobs, each met in two steps), two usage patterns in the
same country:
  (a) after the *successful* edit `watch.user_time_spent = 70 min`, values held by the model list detached objects among
      their direct ancestors; a later what-if simulation / export with calculated attributes raises ValueError;
  (b) editing the country's time zone never returns (attr_updates_chain waits forever for an id that is already marked).
Both disappear when dict entries get distinct ids (checked by monkey-patching the id property). Known finding F8 (R-ID).
Run: cd /verif/repro && PYTHONPATH=/repo /venv/bin/python e32_shared_dict_ids_stale_graph_and_hang.py   (exit 1 = defect present)"""
import signal
import pytz
from _base import *
from efootprint.abstract_modeling_classes.explainable_object_base_class import ExplainableObject
from efootprint.abstract_modeling_classes.explainable_object_dict import ExplainableObjectDict


def build_model():
    st = Storage.ssd()
    srv = Server.from_defaults("srv", storage=st)
    ping = Job.from_defaults("ping", server=srv)
    upload = Job.from_defaults("upload", server=srv)
    watch = UsageJourneyStep("watch", SourceValue(20 * u.min), [ping, upload])
    send = UsageJourneyStep("send", SourceValue(50 * u.min), [upload, ping])
    clean = UsageJourneyStep("clean", SourceValue(30 * u.min), [])
    main = UsageJourney("main", [watch, send, clean])
    side = UsageJourney("side", [send, clean, watch])
    net = Network.wifi_network()
    fr = Countries.FRANCE()
    up_main = UsagePattern("FR main", main, [Device.laptop()], net, fr, hv([10] * 12))
    up_side = UsagePattern("FR side", side, [Device.laptop()], net, fr, hv([30] * 12))
    return System("sys", [up_main, up_side]), watch, fr


def detached_ancestors(system):
    out = []
    for o in [system] + system.all_linked_objects:
        for k, v in o.__dict__.items():
            if k.startswith(("previous_", "initial_")):
                continue
            vals = [v] if isinstance(v, ExplainableObject) else (list(v.values()) if isinstance(v, ExplainableObjectDict) else [])
            for x in vals:
                out += [f"{o.name}.{k} <- {a.label[:50]}" for a in x.direct_ancestors_with_id if a.modeling_obj_container is None]
    return out


def main():
    bad = []
    # (which entry of a dict "wins" depends on set order, i.e. on the random ids: several fresh builds)
    hit = []
    for attempt in range(8):
        system, watch, fr = build_model()
        watch.user_time_spent = SourceValue(70 * u.min)
        d = detached_ancestors(system)
        if d:
            hit.append(d)
    print(f"(a) builds (of 8) with detached direct ancestors after a successful edit: {len(hit)}", hit[0][:2] if hit else "")
    if hit:
        bad.append("graph refers to superseded values after a successful edit")

    def on_alarm(signum, frame):
        raise TimeoutError


    system, watch, fr = build_model()
    signal.signal(signal.SIGALRM, on_alarm)
    signal.alarm(30)
    try:
        fr.timezone = SourceObject(pytz.timezone("Asia/Tokyo"))
        print("(b) time zone edit: done")
    except TimeoutError:
        print("(b) time zone edit: still running after 30 s")
        bad.append("time zone edit hangs")
    signal.alarm(0)
    return 1 if bad else 0



if __name__ == "__main__":
    raise SystemExit(main())
