"""F21 (C06, known finding): a what-if on the traffic input itself.
(1) one usage pattern: ModelingUpdate([[up.hourly_usage_journey_starts, doubled]], simulation_date=<in period>) raises
    TypeError (None <= datetime): the modelled period is computed from the hourly ancestors *outside* the chain, and the
    only hourly input is the value being replaced;
(2) two usage patterns: the simulation is accepted but the simulated series of the changed pattern start at its first
    hour, not at the simulation date: the new hourly value is not cut at the date.
Found by R-SIMDATE ("what the recomputation reads is cut at the date: the ancestors outside the chain and the new hourly
values of the changes"). Run: cd /verif/repro && PYTHONPATH=/repo /venv/bin/python e26_simulating_a_traffic_change.py"""
import logging
from datetime import datetime, timezone, timedelta
from efootprint.logger import logger
logger.setLevel(logging.ERROR)
from efootprint.abstract_modeling_classes.modeling_update import ModelingUpdate
from efootprint.abstract_modeling_classes.source_objects import SourceValue
from efootprint.builders.time_builders import create_source_hourly_values_from_list
from efootprint.constants.countries import Countries
from efootprint.constants.units import u
from efootprint.core.hardware.device import Device
from efootprint.core.hardware.network import Network
from efootprint.core.hardware.server import Server
from efootprint.core.hardware.storage import Storage
from efootprint.core.system import System
from efootprint.core.usage.job import Job
from efootprint.core.usage.usage_journey import UsageJourney
from efootprint.core.usage.usage_journey_step import UsageJourneyStep
from efootprint.core.usage.usage_pattern import UsagePattern

start = datetime(2025, 1, 1)
srv = Server.from_defaults("srv", storage=Storage.ssd())
job = Job.from_defaults("job", server=srv)
step = UsageJourneyStep("step", user_time_spent=SourceValue(1 * u.min), jobs=[job])
uj = UsageJourney("uj", uj_steps=[step])
up = UsagePattern("up", uj, [Device.laptop()], Network.wifi_network(), Countries.FRANCE(),
                  create_source_hourly_values_from_list([10] * 48, start_date=start))
system = System("sys", [up])
new_starts = create_source_hourly_values_from_list([20] * 48, start_date=start)
try:
    sim = ModelingUpdate([[up.hourly_usage_journey_starts, new_starts]],
                         simulation_date=datetime(2025, 1, 2, tzinfo=timezone.utc))
    print("simulation accepted")
except Exception as e:
    print("simulation raised", type(e).__name__, str(e)[:120])

print('--- second scenario: another usage pattern is present')
start = datetime(2025, 1, 1)
srv = Server.from_defaults("srv", storage=Storage.ssd())
job = Job.from_defaults("job", server=srv)
step = UsageJourneyStep("step", user_time_spent=SourceValue(1 * u.min), jobs=[job])
uj = UsageJourney("uj", uj_steps=[step])
up = UsagePattern("up", uj, [Device.laptop()], Network.wifi_network(), Countries.FRANCE(),
                  create_source_hourly_values_from_list([10] * 48, start_date=start))
srv2 = Server.from_defaults("srv2", storage=Storage.ssd())
job2 = Job.from_defaults("job2", server=srv2)
step2 = UsageJourneyStep("step2", user_time_spent=SourceValue(1 * u.min), jobs=[job2])
uj2 = UsageJourney("uj2", uj_steps=[step2])
up2 = UsagePattern("up2", uj2, [Device.laptop()], Network.wifi_network(), Countries.FRANCE(),
                  create_source_hourly_values_from_list([5] * 48, start_date=start))
system = System("sys", [up, up2])
new_starts = create_source_hourly_values_from_list([20] * 48, start_date=start)
try:
    sim = ModelingUpdate([[up.hourly_usage_journey_starts, new_starts]],
                         simulation_date=datetime(2025, 1, 2, tzinfo=timezone.utc))
    print("simulation accepted")
    sim.set_updated_values()
    v = up.utc_hourly_usage_journey_starts.value
    print("simulated utc starts of up: first hour", v.index.min(), "n =", len(v), "(simulation date 2025-01-02 00:00 UTC)")
    v2 = srv.hour_by_hour_compute_need.value if hasattr(srv.hour_by_hour_compute_need, "value") else None
    print("simulated server need: first hour", v2.index.min() if v2 is not None else None)
    sim.reset_values()
except Exception as e:
    print("simulation raised", type(e).__name__, str(e)[:120])
