from _base import *
import pytz
m = build(); srv = m["srv"]; s = m["s"]
tf = s.total_footprint; avail = srv.available_ram_per_instance; base = srv.base_ram_consumption
try:
    ModelingUpdate([[srv.base_ram_consumption, SourceValue(1000*u.GB)]], simulation_date=datetime(2025,1,1,2,tzinfo=pytz.utc))
except Exception as e:
    print("E4 raised", type(e).__name__, str(e)[:80])
print("E4 baseline input identical:", srv.base_ram_consumption is base, srv.base_ram_consumption)
print("E4 total_footprint identical:", s.total_footprint is tf)
print("E4 up hourly starts len:", len(m["up"].hourly_usage_journey_starts))
# E5 no-op extend
m = build(); step = m["step"]
step.jobs.extend([])
print("E5 job containers after no-op +=:", m["j"].usage_journey_steps, [c.modeling_obj_container for c in step.jobs])
try:
    j2 = Job.from_defaults("j2", server=m["srv"]); step.jobs.append(j2); print("E5 append ok", step.jobs)
except Exception as e:
    print("E5 append after no-op raised", type(e).__name__, str(e)[:80])
# E6 reverse
stA = Storage.ssd(); srvA = Server.from_defaults("srv", storage=stA)
jA = Job.from_defaults("jA", server=srvA)
s1 = UsageJourneyStep("s1", SourceValue(2*u.hour), []); s2 = UsageJourneyStep("s2", SourceValue(1*u.min), [jA])
uj = UsageJourney("uj", [s1, s2])
up = UsagePattern("up", uj, [Device.laptop()], Network.wifi_network(), Countries.FRANCE(), hv([1,2,3,4]))
sys_ = System("sys", [up])
b = jA.hourly_occurrences_per_usage_pattern[up].value.index[0]
uj.uj_steps.reverse()
a = jA.hourly_occurrences_per_usage_pattern[up].value.index[0]
print("E6 first occurrence hour before/after reverse():", b, a, "steps now", [x.name for x in uj.uj_steps])
