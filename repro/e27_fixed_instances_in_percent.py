"""F22 (C10, also C04): a user-fixed number of instances typed in percent. At construction ServerBase converts it to
dimensionless; after a later edit `server.fixed_nb_of_instances = SourceValue(500 * u.percent)` the on-premise rule handed
the pint quantity to np.full, which keeps the magnitude in the typed unit: 500 instances instead of 5 (Storage, the sibling
rule, converted). Found by R-MAG's np.full sink (withdrawn earlier on the strength of e13_percent_ok.py, which had tested
3 -> 300 percent: an edit that ModelingUpdate skips as "updated to itself"). Fixed.
Run: cd /verif/repro && PYTHONPATH=/repo /venv/bin/python e27_fixed_instances_in_percent.py"""
from _base import *
st = Storage.ssd()
srv = Server.from_defaults("srv", storage=st, server_type=ServerTypes.on_premise())
j = Job.from_defaults("j", server=srv)
step = UsageJourneyStep("s", SourceValue(1 * u.min), [j])
uj = UsageJourney("uj", [step])
up = UsagePattern("up", uj, [Device.laptop()], Network.wifi_network(), Countries.FRANCE(), hv([1, 2, 3, 4]))
s = System("sys", [up])
srv.fixed_nb_of_instances = SourceValue(500 * u.percent)
got = srv.nb_of_instances.value_as_float_list
print("fixed_nb_of_instances = 500 percent -> nb_of_instances", got)
ok = got == [5.0] * 4
print("OK" if ok else "DEFECT: 500 percent read as 500 instances")
raise SystemExit(0 if ok else 1)
