from _base import *
m = build()
up = m["up"]
try:
    m["s"].usage_patterns.append(up)
    s = m["s"]
    print("dup up accepted; usage_patterns:", [x.name for x in s.usage_patterns])
    tot = s.total_footprint.sum().value
    e = sum(v.value.magnitude for v in s.total_energy_footprint_sum_over_period.values()); f = sum(v.value.magnitude for v in s.total_fabrication_footprint_sum_over_period.values())
    print("total_footprint sum", tot, "vs category sums", e+f)
except Exception as ex:
    print("raised", type(ex).__name__, str(ex)[:100])
