from _base import *
def snap(m):
    out = {}
    for o in [m["s"]] + m["s"].all_linked_objects:
        for a in o.calculated_attributes:
            out[(o.name, a)] = str(getattr(o, a))
    return out
m = build(); srv = m["srv"]; s0 = snap(m)
prev = srv.base_ram_consumption
try:
    srv.base_ram_consumption = SourceValue(1000*u.GB)
except ValueError as e: print("failed edit:", str(e)[:60])
try:
    srv.base_ram_consumption = SourceValue(0*u.GB)
    s1 = snap(m); print("C15 simple revert equal:", s0 == s1, [k for k in s0 if s0[k]!=s1[k]])
except Exception as e:
    print("revert raised", type(e).__name__, str(e)[:100])
# then a later edit behaves like fresh?
srv.ram = SourceValue(256*u.GB)
f = build(); f["srv"].ram = SourceValue(256*u.GB)
print("post-revert edit equals fresh:", snap(m) == snap(f))
