from _base import *
st = Storage.ssd(); srv = Server.from_defaults("srv", storage=st, server_type=ServerTypes.on_premise(), fixed_nb_of_instances=SourceValue(3*u.dimensionless))
j = Job.from_defaults("j", server=srv); step = UsageJourneyStep("s", SourceValue(1*u.min), [j]); uj = UsageJourney("uj", [step])
up = UsagePattern("up", uj, [Device.laptop()], Network.wifi_network(), Countries.FRANCE(), hv([1,2,3,4]))
s = System("sys", [up])
print("nb_of_instances (3 dimensionless):", srv.nb_of_instances.value_as_float_list, srv.instances_fabrication_footprint.value_as_float_list[:1])
srv.fixed_nb_of_instances = SourceValue(300*u.percent)
print("nb_of_instances (300 percent):", srv.nb_of_instances.value_as_float_list, srv.instances_fabrication_footprint.value_as_float_list[:1])
