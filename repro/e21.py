"""F15: a service installed on a server but used by no job is lost by the JSON writer (it is only reachable through a
reverse look-up), although it reserves RAM on the server."""
from _base import *
from efootprint.builders.services.video_streaming import VideoStreaming
from efootprint.api_utils.system_to_json import system_to_json
from efootprint.api_utils.json_to_system import json_to_system
st = Storage.ssd(); srv = Server.from_defaults("srv", storage=st)
svc = VideoStreaming.from_defaults("streaming", server=srv)
j = Job.from_defaults("j", server=srv)
step = UsageJourneyStep("s", SourceValue(1*u.min), [j]); uj = UsageJourney("uj", [step])
up = UsagePattern("up", uj, [Device.laptop()], Network.wifi_network(), Countries.FRANCE(), hv([1,2,3,4]))
s = System("sys", [up])
print("occupied ram before save:", srv.occupied_ram_per_instance)
d = system_to_json(s, save_calculated_attributes=False)
print("VideoStreaming section saved:", "VideoStreaming" in d)
cls, flat = json_to_system(d)
srv2 = list(cls["Server"].values())[0]
print("occupied ram after reload:", srv2.occupied_ram_per_instance)
