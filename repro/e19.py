"""F14: hourly inputs are saved rounded to 0 (or 1) decimals instead of the documented 3: ModelingObject.to_json passes
save_calculated_attributes positionally, and the first positional parameter of ExplainableHourlyQuantities.to_json is
rounding_depth."""
from _base import *
from efootprint.api_utils.system_to_json import system_to_json
m = build(vals=[1.23456, 2.5, 3.75, 4.1, 5, 6, 7, 8])
for flag in (False, True):
    d = system_to_json(m["s"], save_calculated_attributes=flag)
    up = list(d["UsagePattern"].values())[0]
    print("save_calculated_attributes =", flag, "-> saved hourly_usage_journey_starts:", up["hourly_usage_journey_starts"]["values"][:4])
print("in memory:", [round(float(x), 5) for x in m["up"].hourly_usage_journey_starts.value["value"].values._data[:4]])
