"""F28 (C10): results must not depend on the unit an input was typed in. Job.duration_in_full_hours and the storage's
expiry shift took math.ceil of `<duration>.to(u.hour).magnitude`; 3 600 000 ms converts to 1.0000000000000002 h, so a request
of one hour typed in milliseconds counted as two full hours (data spread over 13 hours instead of 12) and a storage
duration of 7 200 000 ms expired data after 3 hours instead of 2. Found by R-HOURNOISE. Fixed (noise absorbed before ceil).
Run: cd /verif/repro && PYTHONPATH=/repo /venv/bin/python e35_duration_typed_in_milliseconds.py"""
from _base import *
bad = 0
ref = None
for dur in (1 * u.hour, 3600 * u.s, 60 * u.min, 3600000 * u.ms):
    m = build(rd=SourceValue(dur), vals=[10] * 12)
    j = m["j"]
    got = (int(j.duration_in_full_hours.value.magnitude), len(j.hourly_data_transferred_across_usage_patterns.value))
    ref = ref or got
    print(f"request_duration = {dur}: full hours, hours covered = {got}", "" if got == ref else "   <-- DEFECT")
    bad += got != ref
ref = None
for dur in (2 * u.hour, 120 * u.min, 7200000 * u.ms):
    st = Storage.from_defaults("st", data_storage_duration=SourceValue(dur))
    srv = Server.from_defaults("srv", storage=st)
    j = Job.from_defaults("j", server=srv, data_stored=SourceValue(1 * u.GB))
    step = UsageJourneyStep("s", SourceValue(1 * u.min), [j])
    up = UsagePattern("up", UsageJourney("uj", [step]), [Device.laptop()], Network.wifi_network(), Countries.FRANCE(), hv([10] * 12))
    System("sys", [up])
    got = [round(float(x), 6) for x in st.full_cumulative_storage_need.value["value"].values._data[:5]]
    ref = ref or got
    print(f"data_storage_duration = {dur}: cumulative need {got}", "" if got == ref else "   <-- DEFECT")
    bad += got != ref
raise SystemExit(1 if bad else 0)
