"""F24 (C14): a list containing an object of the wrong class, or a link to an object of the wrong class, is refused on later
assignment but ACCEPTED at construction. Constructors store `ListLinkedToModelingObj(devices)` /
`ContextualModelingObjectAttribute(usage_journey)`; the validator then tests isinstance(item, Device) on *wrappers*, and
ABCAfterInitMeta.__instancecheck__ answers True for every wrapper whatever class is asked about. Found by R-VAL-WRAP.
Not repaired: making the metaclass look at the wrapped object is a one-line change, but 59 tests of the suite build model
objects around MagicMocks and only pass because of the lenient answer (the suite must pass unedited).
Run: cd /verif/repro && PYTHONPATH=/repo /venv/bin/python e29_wrong_class_accepted_at_construction.py   (exit 1 = defect present)"""
from _base import *
st = Storage.ssd()
srv = Server.from_defaults("srv", storage=st)
j = Job.from_defaults("j", server=srv)
step = UsageJourneyStep("s", SourceValue(1 * u.min), [j])
uj = UsageJourney("uj", [step])
other_server = Server.from_defaults("srv2", storage=Storage.ssd())
accepted = []


def attempt(what, build):
    try:
        build()
        accepted.append(what)
        print("ACCEPTED:", what)
    except Exception as e:
        print("refused :", what, "->", type(e).__name__)


attempt("UsagePattern(devices=[laptop, <Server>]) at construction", lambda: UsagePattern(
    "up", uj, [Device.laptop(), other_server], Network.wifi_network(), Countries.FRANCE(), hv([10] * 24)))
attempt("UsageJourneyStep(jobs=[job, <Device>]) at construction", lambda: UsageJourneyStep(
    "s2", SourceValue(1 * u.min), [j, Device.laptop()]))
attempt("UsagePattern(usage_journey=<UsageJourneyStep>) at construction", lambda: UsagePattern(
    "up2", step, [Device.laptop()], Network.wifi_network(), Countries.FRANCE(), hv([10] * 24)))
up3 = UsagePattern("up3", uj, [Device.laptop()], Network.wifi_network(), Countries.FRANCE(), hv([10] * 24))


def assign():
    up3.devices = [Device.laptop(), Server.from_defaults("srv3", storage=Storage.ssd())]


attempt("up.devices = [laptop, <Server>] on later assignment (refused, as it should)", assign)
raise SystemExit(1 if [a for a in accepted if "construction" in a] else 0)
