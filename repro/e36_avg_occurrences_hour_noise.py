"""F30 (C10): compute_nb_avg_hourly_occurrences splits the event duration into full hours + rest on the raw float of the
unit conversion: a 1-hour request typed as 3600000 ms is 1.0000000000000002 h, i.e. one full hour *plus a rest of 2.2e-16
hour* that creates one more hour in the series — an autoscaling server rounds it up to a whole instance.
Exit 0 when the defect is present (unit-dependent result), 1 when absent."""
import sys, logging
from efootprint.logger import logger
logger.setLevel(logging.ERROR)
from datetime import datetime
from efootprint.abstract_modeling_classes.source_objects import SourceValue
from efootprint.builders.time_builders import create_source_hourly_values_from_list
from efootprint.constants.units import u
from efootprint.core.usage.compute_nb_occurrences_in_parallel import compute_nb_avg_hourly_occurrences

starts = create_source_hourly_values_from_list([4, 0, 0, 2], start_date=datetime(2025, 1, 1))
a = compute_nb_avg_hourly_occurrences(starts, SourceValue(1 * u.hour))
b = compute_nb_avg_hourly_occurrences(starts, SourceValue(3600000 * u.ms))
la, lb = len(a.value), len(b.value)
print("1 hour       ->", la, "hours:", a.value_as_float_list)
print("3600000 ms   ->", lb, "hours:", b.value_as_float_list)
if la != lb:
    print("DEFECT PRESENT: the same duration typed in ms covers one more hour (weight 2.2e-16), which ceil() turns into a whole instance")
    sys.exit(0)
print("defect absent")
sys.exit(1)
