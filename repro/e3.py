from _base import *
m = build(); srv = m["srv"]
print("server_type before:", srv.server_type)
try:
    srv.server_type = SourceObject("bogus")
except Exception as e:
    print("E3 raised", type(e).__name__)
print("E3 server_type after refused edit:", srv.server_type)
# E8: fixed_nb_of_instances negative / wrong dimension on later assignment
m = build(); srv = m["srv"]
try:
    srv.fixed_nb_of_instances = SourceValue(-3*u.dimensionless)
    print("E8 negative accepted on assignment:", srv.fixed_nb_of_instances)
except Exception as e:
    print("E8 raised", type(e).__name__, str(e)[:100])
m = build(); srv = m["srv"]
try:
    srv.fixed_nb_of_instances = SourceValue(3*u.kg)
    print("E8 wrong dimension accepted on assignment:", srv.fixed_nb_of_instances)
except Exception as e:
    print("E8b raised", type(e).__name__, str(e)[:100])
try:
    s2 = Server.from_defaults("x", storage=Storage.ssd(), server_type=ServerTypes.on_premise(), fixed_nb_of_instances=SourceValue(-3*u.dimensionless))
    print("E8c negative accepted at construction", s2.fixed_nb_of_instances)
except Exception as e:
    print("E8c raised", type(e).__name__, str(e)[:100])
