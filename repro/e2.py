from _base import *
import numpy as np
# two usage patterns on the same server/storage: writer active early window, deleter active on a later/wider window
st = Storage.ssd(base_storage_need=SourceValue(1*u.TB))
srv = Server.from_defaults("srv", storage=st)
jw = Job.from_defaults("writer", server=srv, data_stored=SourceValue(100*u.MB))
jd = Job.from_defaults("deleter", server=srv, data_stored=SourceValue(-50*u.MB))
def mk(name, job, vals, start):
    step = UsageJourneyStep(name+"s", SourceValue(1*u.min), [job]); uj = UsageJourney(name+"uj", [step])
    return UsagePattern(name, uj, [Device.laptop()], Network.wifi_network(), Countries.FRANCE(), hv(vals, start_date=start))
up1 = mk("up1", jw, [10,20,30,40], datetime(2025,1,1,0))
up2 = mk("up2", jd, [1,1,1,1], datetime(2025,1,1,6))
s = System("sys", [up1, up2])
print("needed idx", st.storage_needed.value.index[[0,-1]].tolist(), len(st.storage_needed))
print("freed  idx", st.storage_freed.value.index[[0,-1]].tolist(), len(st.storage_freed))
print("active", st.nb_of_active_instances)
print("nb_inst", len(st.nb_of_instances), "energy has NaN:", np.isnan(st.instances_energy.value["value"].values._data).any())
print("total NaN:", np.isnan(s.total_footprint.value["value"].values._data).any())
