"""F23 (C01): replacing the traffic series of a usage pattern by one of another length (extending the modelled period) is an
edit like any other; before the fix ExplainableHourlyQuantities.__eq__ raised ValueError for two series of different lengths
and ModelingUpdate's no-op test (`old == new`) turned the edit into an error. Found by R-NOOP's clause "the == of a value
class answers for two values of that class". Fixed (the series compare unequal).
Run: cd /verif/repro && PYTHONPATH=/repo /venv/bin/python e28_traffic_series_of_another_length.py"""
from _base import *
st = Storage.ssd()
srv = Server.from_defaults("srv", storage=st)
j = Job.from_defaults("j", server=srv)
step = UsageJourneyStep("s", SourceValue(1 * u.min), [j])
uj = UsageJourney("uj", [step])
up = UsagePattern("up", uj, [Device.laptop()], Network.wifi_network(), Countries.FRANCE(), hv([10] * 24))
s = System("sys", [up])
try:
    up.hourly_usage_journey_starts = hv([10] * 48)
    n = len(up.utc_hourly_usage_journey_starts.value)
    print("accepted; UTC starts now cover", n, "hours")
    ok = n == 48
except Exception as e:
    print("DEFECT: raised", type(e).__name__, str(e)[:90])
    ok = False
raise SystemExit(0 if ok else 1)
