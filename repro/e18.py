from _base import *
m = build(); step = m["step"]; j = m["j"]; srv = m["srv"]
a = Job.from_defaults("a", server=srv); step.jobs.append(a)
try:
    del step.jobs[0:1]; print("del slice ok")
except Exception as e:
    print("E18 del slice raised", type(e).__name__, str(e)[:80])
print("after: jobs:", [x.name for x in step.jobs], "| j used by:", [s.name for s in j.usage_journey_steps])
try:
    step.jobs[0:1] = [j]; print("slice assign ok", [x.name for x in step.jobs])
except Exception as e:
    print("E18 slice assign raised", type(e).__name__, str(e)[:80], "| jobs:", [x.name for x in step.jobs])
