import logging, warnings
warnings.filterwarnings("ignore")
from efootprint.logger import logger
logger.setLevel(logging.ERROR)
from datetime import datetime
from efootprint.abstract_modeling_classes.source_objects import SourceValue, SourceObject
from efootprint.abstract_modeling_classes.explainable_objects import EmptyExplainableObject
from efootprint.abstract_modeling_classes.modeling_update import ModelingUpdate
from efootprint.core.usage.job import Job
from efootprint.core.hardware.server import Server
from efootprint.core.hardware.server_base import ServerTypes
from efootprint.core.hardware.storage import Storage
from efootprint.core.usage.usage_journey import UsageJourney
from efootprint.core.usage.usage_journey_step import UsageJourneyStep
from efootprint.core.usage.usage_pattern import UsagePattern
from efootprint.core.hardware.network import Network
from efootprint.core.hardware.device import Device
from efootprint.core.system import System
from efootprint.constants.countries import Countries
from efootprint.constants.units import u
from efootprint.builders.time_builders import create_source_hourly_values_from_list as hv

def build(rd=None, vals=None, data_stored=None, start=datetime(2025,1,1)):
    rd = rd or SourceValue(1*u.s); data_stored = data_stored or SourceValue(100*u.kB)
    st = Storage.ssd()
    srv = Server.from_defaults("srv", storage=st)
    j = Job.from_defaults("j", server=srv, request_duration=rd, data_stored=data_stored)
    step = UsageJourneyStep("s", SourceValue(1*u.min), [j])
    uj = UsageJourney("uj", [step])
    up = UsagePattern("up", uj, [Device.laptop()], Network.wifi_network(), Countries.FRANCE(), hv(vals or [1,2,3,4,5,6,7,8], start_date=start))
    s = System("sys", [up])
    return dict(st=st, srv=srv, j=j, step=step, uj=uj, up=up, s=s)
