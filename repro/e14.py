from _base import *
m = build(); step = m["step"]; srv = m["srv"]
a = Job.from_defaults("a", server=srv); b = Job.from_defaults("b", server=srv)
jobs = step.jobs
jobs.append(a)
print("after 1st append: step.jobs is jobs?", step.jobs is jobs, [x.name for x in step.jobs], [x.name for x in jobs])
try:
    jobs.append(b); print("2nd append ok", [x.name for x in step.jobs])
except Exception as e:
    print("E14 2nd append on held reference raised", type(e).__name__, str(e)[:80])
