"""F29 (C03): "each occurrence being placed at the journey start shifted by the whole hours of the preceding steps".
return_shifted_hourly_quantities took math.floor of the delay converted to hours; the running delay is converted to hours
in place the first time the job is placed and the following steps are added in float hours, so six 10-minute steps add up
to 0.9999999999999999 h and the job of the seventh step is placed at hour 0 instead of hour 1 (same with ten 6-minute
steps). Found by R-HOURNOISE. Fixed (the float noise is absorbed before the floor).
Run: cd /verif/repro && PYTHONPATH=/repo /venv/bin/python e34_exactly_one_hour_of_steps.py"""
from _base import *


def occurrences_per_hour(minutes, n):
    st = Storage.ssd()
    srv = Server.from_defaults("srv", storage=st)
    j = Job.from_defaults("j", server=srv)
    steps = [UsageJourneyStep(f"s{i}", SourceValue(minutes * u.min), [j]) for i in range(n + 1)]
    up = UsagePattern("up", UsageJourney("uj", steps), [Device.laptop()], Network.wifi_network(), Countries.FRANCE(),
                      hv([100] + [0] * 11))
    System("sys", [up])
    return [float(x) for x in j.hourly_occurrences_per_usage_pattern[up].value["value"].values._data[:2]]


bad = 0
for minutes, n in ((10, 6), (20, 3), (15, 4), (30, 2), (6, 10), (12, 5)):
    got, want = occurrences_per_hour(minutes, n), [100.0 * n, 100.0]
    print(f"{n + 1} steps of {minutes} min, the job in each: per hour {got}, expected {want}", "" if got == want else "   <-- DEFECT")
    bad += got != want
raise SystemExit(1 if bad else 0)
