from _base import *
from efootprint.api_utils.system_to_json import system_to_json
from efootprint.api_utils.json_to_system import json_to_system
from efootprint.builders.hardware.boavizta_cloud_server import BoaviztaCloudServer
import json
m = build()
for calc in (False, True):
    d = system_to_json(m["s"], save_calculated_attributes=calc)
    d = json.loads(json.dumps(d))
    try:
        c, f = json_to_system(d)
        d2 = json.loads(json.dumps(system_to_json(list(c["System"].values())[0], save_calculated_attributes=calc)))
        print("plain roundtrip calc=%s ok, same json: %s" % (calc, d2 == d))
    except Exception as e:
        print("plain roundtrip calc=%s raised %s %s" % (calc, type(e).__name__, str(e)[:100]))
st = Storage.ssd(); srv = BoaviztaCloudServer.from_defaults("cloud", storage=st)
j = Job.from_defaults("j", server=srv); step = UsageJourneyStep("s", SourceValue(1*u.min), [j]); uj = UsageJourney("uj", [step])
up = UsagePattern("up", uj, [Device.laptop()], Network.wifi_network(), Countries.FRANCE(), hv([1,2,3,4]))
s = System("sys", [up])
for calc in (False, True):
    d = json.loads(json.dumps(system_to_json(s, save_calculated_attributes=calc)))
    try:
        c, f = json_to_system(d); print("cloud roundtrip calc=%s ok" % calc)
    except Exception as e:
        print("cloud roundtrip calc=%s raised %s %s" % (calc, type(e).__name__, str(e)[:100]))
