from _base import *
def snap(s):
    out = {}
    for o in [s] + s.all_linked_objects:
        for a in o.calculated_attributes:
            v = getattr(o, a)
            if isinstance(v, dict):
                out[(o.name, a)] = {k.name: str(x) for k, x in v.items()}
            else: out[(o.name, a)] = str(v)
    return out
def mk(dt=150, rd=1, uts=1, hv2=None):
    st = Storage.ssd(); srv = Server.from_defaults("srv", storage=st)
    j = Job.from_defaults("j", server=srv, data_transferred=SourceValue(dt*u.kB), request_duration=SourceValue(rd*u.s))
    s1 = UsageJourneyStep("s1", SourceValue(uts*u.min), [j]); uj1 = UsageJourney("uj1", [s1])
    s2 = UsageJourneyStep("s2", SourceValue(1*u.min), [j]); uj2 = UsageJourney("uj2", [s2])
    net = Network.wifi_network()
    up1 = UsagePattern("up1", uj1, [Device.laptop()], net, Countries.FRANCE(), hv([1,2,3,4]))
    up2 = UsagePattern("up2", uj2, [Device.laptop()], net, Countries.FRANCE(), hv(hv2 or [5,6,7,8]))
    return dict(s=System("sys", [up1, up2]), j=j, up1=up1, up2=up2, s1=s1, srv=srv, uj1=uj1)
def diff(a, b):
    return [k for k in a if a[k] != b[k]]
m = mk(); m["j"].data_transferred = SourceValue(300*u.kB); print("shared job, edit data_transferred:", diff(snap(m["s"]), snap(mk(dt=300)["s"])))
m = mk(); m["j"].request_duration = SourceValue(3*u.s); print("shared job, edit request_duration:", diff(snap(m["s"]), snap(mk(rd=3)["s"])))
m = mk(); m["s1"].user_time_spent = SourceValue(120*u.min); print("shared job, edit step time:", diff(snap(m["s"]), snap(mk(uts=120)["s"])))
m = mk(); m["up2"].hourly_usage_journey_starts = hv([9,9,9,9]); print("shared job, edit up2 starts:", diff(snap(m["s"]), snap(mk(hv2=[9,9,9,9])["s"])))
