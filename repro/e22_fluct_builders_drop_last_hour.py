"""F17 (C20): linear_growth / sinusoidal_fluct / daily_fluct_hourly_values truncate a float hour count:
a span of 1 day + 7 hours converts to 30.999999999999996 h and int() drops the 31st hour.
Exit 0 when every helper returns 31 values for that span, 1 otherwise."""
import sys
from efootprint.builders.time_builders import linear_growth_hourly_values, sinusoidal_fluct_hourly_values, \
    daily_fluct_hourly_values
from efootprint.constants.units import u

bad = []
for span, want in ((1 * u.day + 7 * u.hour, 31), (2 * u.day + 14 * u.hour, 62), (1 * u.day, 24), (31.7 * u.hour, 31)):
    for name, f in (("linear", lambda s: linear_growth_hourly_values(s, 1, 5)),
                    ("sinus", lambda s: sinusoidal_fluct_hourly_values(s, 3, 24)),
                    ("daily", lambda s: daily_fluct_hourly_values(s, 0.5))):
        n = len(f(span).value)
        if n != want:
            bad.append(f"{name}({span}): {n} values, expected {want}")
print("\n".join(bad) or "OK")
sys.exit(1 if bad else 0)
