"""F27 (C04): "a model in which no job deletes data is never rejected for negative storage". The cumulative storage need is
a float running sum of replicated writes and of their expiries after the storage duration; the two cancel out up to
floating point noise, and the check `min < 0` rejected such models with "negative cumulative storage need detected:
-8.9e-16 terabyte" (4 of 40 random traffic series). Found by R-CUMUL's clause "the negativity check of a float running
sum is not a comparison with exact zero". Fixed (the need has to be negative beyond the noise).
Run: cd /verif/repro && PYTHONPATH=/repo /venv/bin/python e33_no_deletion_rejected_for_negative_storage.py"""
import random
from _base import *
rejected = []
for seed in range(40):
    random.seed(seed)
    vals = [random.choice([0, 1, 2, 4, 9, 3, 7]) for _ in range(6)] + [0] * 6
    st = Storage.from_defaults("st", data_replication_factor=SourceValue(3 * u.dimensionless),
                               data_storage_duration=SourceValue(2 * u.hour), base_storage_need=SourceValue(0 * u.TB))
    srv = Server.from_defaults("srv", storage=st)
    j = Job.from_defaults("j", server=srv, data_stored=SourceValue(0.1 * u.TB))
    step = UsageJourneyStep("s", SourceValue(1 * u.min), [j])
    uj = UsageJourney("uj", [step])
    up = UsagePattern("up", uj, [Device.laptop()], Network.wifi_network(), Countries.FRANCE(), hv(vals))
    try:
        System("sys", [up])
    except ValueError as e:
        rejected.append((vals, str(e)[:100]))
print("deletion-free models rejected:", len(rejected), "of 40", rejected[:1])
# a job that really deletes more than there is must still be refused
st = Storage.from_defaults("st2", base_storage_need=SourceValue(0 * u.TB))
srv = Server.from_defaults("srv2", storage=st)
j = Job.from_defaults("j2", server=srv, data_stored=SourceValue(-1 * u.GB))
step = UsageJourneyStep("s2", SourceValue(1 * u.min), [j])
up = UsagePattern("up2", UsageJourney("uj2", [step]), [Device.laptop()], Network.wifi_network(), Countries.FRANCE(), hv([5] * 12))
try:
    System("sys2", [up])
    still_refused = False
except ValueError:
    still_refused = True
print("a job deleting data that was never written is still refused:", still_refused)
raise SystemExit(0 if not rejected and still_refused else 1)
