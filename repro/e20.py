"""F16: the one-system check only runs when a System is built (or explicitly recomputed): a link edit can put an object
in two systems."""
from _base import *
a = build(); b = build()
step_b = b["step"]
try:
    a["uj"].uj_steps.append(step_b)
    print("append of a step of system B to a journey of system A accepted")
except Exception as e:
    print("refused:", type(e).__name__, str(e)[:80])
print("systems of step_b:", [s.name + "/" + s.id[:9] for s in step_b.systems])
print("systems of job_b :", len(b["j"].systems))
