"""F26 (C20): "a daily volume spread over chosen hours sums to that volume on every full day".
create_hourly_usage_from_daily_volume_and_list_of_hours divides the volume by len(hours) and places it at the hours that
are *members* of the list: an hour listed twice is counted twice in the divisor and placed once, so the day carries less
than the requested volume (hours=[8, 8, 20] -> 2/3 of it). Found by R-SPREAD; fixed (the divisor counts distinct hours).
Run: cd /verif/repro && PYTHONPATH=/repo /venv/bin/python e31_daily_volume_with_repeated_hours.py"""
from _base import *
from efootprint.builders.time_builders import create_hourly_usage_from_daily_volume_and_list_of_hours
s = create_hourly_usage_from_daily_volume_and_list_of_hours(3 * u.day, 900, [8, 8, 20])
per_day = s.value["value"].values._data[:72].reshape(3, 24).sum(axis=1)      # (the series ends with the first hour of day 4)
print("daily sums for a daily volume of 900 over hours [8, 8, 20]:", list(per_day))
ok = all(abs(x - 900) < 1e-9 for x in per_day)
print("OK" if ok else "DEFECT: the day does not carry the requested volume")
raise SystemExit(0 if ok else 1)
