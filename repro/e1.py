from _base import *
m = build()
j = m["j"]; up = m["up"]
before = j.hourly_data_transferred_per_usage_pattern[up].value_as_float_list
j.request_duration = SourceValue(2*u.hour)
after = j.hourly_data_transferred_per_usage_pattern[up].value_as_float_list
fresh = build(rd=SourceValue(2*u.hour))
ff = fresh["j"].hourly_data_transferred_per_usage_pattern[fresh["up"]].value_as_float_list
print("E1 before", before); print("E1 after ", after); print("E1 fresh ", ff)
print("net edited", m["up"].network.energy_footprint.value_as_float_list[:4]); print("net fresh ", fresh["up"].network.energy_footprint.value_as_float_list[:4])
print("ancestors of data_transferred_per_up:", [a.id for a in j.hourly_data_transferred_per_usage_pattern[up].all_ancestors_with_id])
