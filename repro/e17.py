from _base import *
m = build(); step = m["step"]; j = m["j"]; srv = m["srv"]
a = Job.from_defaults("a", server=srv); step.jobs.append(a)
print("jobs:", [x.name for x in step.jobs], "| a used by:", [s.name for s in a.usage_journey_steps])
try:
    step.jobs.remove(a); print("remove(a) ok")
except Exception as e:
    print("E17 remove(object) raised", type(e).__name__, str(e)[:80])
print("after: jobs:", [x.name for x in step.jobs], "| a used by:", [s.name for s in a.usage_journey_steps])
