"""F25 (C01): what a system counts should be what its usage_patterns list holds. UsageJourney.usage_patterns and
Network.usage_patterns return the raw back links (every usage pattern that points to the object), and jobs / networks
aggregate over them — so a pattern that was removed from the list, or built and never added, keeps being counted:
  * append(up2) then remove(up2) does not restore the previous footprints ("undoing an edit restores the previous footprints");
  * building up2 (same journey and network) without linking it makes the next edit of the system raise KeyError.
Found by R-MEMBER. Known finding (not repaired, see known_findings.json).
Run: cd /verif/repro && PYTHONPATH=/repo /venv/bin/python e30_unlinked_pattern_still_counted.py   (exit 1 = defect present)"""
from _base import *
st = Storage.ssd()
srv = Server.from_defaults("srv", storage=st)
j = Job.from_defaults("j", server=srv)
step = UsageJourneyStep("s", SourceValue(1 * u.min), [j])
uj = UsageJourney("uj", [step])
net = Network.wifi_network()
up1 = UsagePattern("up1", uj, [Device.laptop()], net, Countries.FRANCE(), hv([10] * 24))
s = System("sys", [up1])
state = lambda: (round(net.energy_footprint.sum().value.magnitude, 6),
                 round(j.hourly_occurrences_across_usage_patterns.sum().value.magnitude, 1))
before = state()
print("system with up1        : network kg, job occurrences =", before)
up2 = UsagePattern("up2", uj, [Device.laptop()], net, Countries.FRANCE(), hv([30] * 24))
bad = []
try:
    j.data_transferred = SourceValue(j.data_transferred.value)      # any edit, here a value-equal re-assignment
    j.data_stored = SourceValue(2 * j.data_stored.value)
    j.data_stored = SourceValue(0.5 * j.data_stored.value)
    print("edit with an unlinked up2 around: accepted")
except Exception as e:
    print("edit with an unlinked up2 around: raises", type(e).__name__)
    bad.append("an edit raises once an unlinked pattern shares the journey")
s.usage_patterns.append(up2)
print("after append(up2)      :", state())
s.usage_patterns.remove(up2)
after = state()
print("after remove(up2)      :", after)
if after != before:
    bad.append(f"append + remove does not restore: {before} -> {after}")
for b in bad:
    print("DEFECT:", b)
raise SystemExit(1 if bad else 0)
