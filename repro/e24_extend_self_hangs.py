"""F19 (C16): x.extend(x) / x += x must double the list like Python's; before the fix the replay loop iterated over its
argument while appending to it and never returned (5 s alarm below). Found by R-LISTSIB's snapshot clause.
Run: cd /verif/repro && PYTHONPATH=/repo /venv/bin/python e24_extend_self_hangs.py"""
import logging, signal
from efootprint.logger import logger
logger.setLevel(logging.ERROR)
from efootprint.core.usage.job import Job
from efootprint.core.hardware.server import Server
from efootprint.core.hardware.storage import Storage
from efootprint.core.usage.usage_journey_step import UsageJourneyStep
from efootprint.abstract_modeling_classes.source_objects import SourceValue
from efootprint.constants.units import u
def boom(*a): raise TimeoutError("hang")
signal.signal(signal.SIGALRM, boom); signal.alarm(5)
srv = Server.from_defaults("s", storage=Storage.ssd())
j = Job.from_defaults("j", server=srv); j2 = Job.from_defaults("j2", server=srv)
step = UsageJourneyStep("st", user_time_spent=SourceValue(1 * u.min), jobs=[j, j2])
try:
    step.jobs.extend(step.jobs)
    print("extend(self) ->", len(step.jobs))
except BaseException as e:
    print("extend(self):", type(e).__name__, str(e)[:80], "len so far", len(step.jobs))
