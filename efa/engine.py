"""Shared, cached analyses used by several rules (contexts, class-level graph G, closures)."""
import ast

from .frontend import ProgramModel, AnalysisError, norm
from .interp import Interp, Cx, V, F, TOP, d_add


class Engine:
    def __init__(self, repo=None):
        self.pm = ProgramModel(repo)
        self.I = Interp(self.pm)
        self._ctx = None
        self._G = None
        self._anc = {}
        self._reads = {}
        self._rule_cache = {}
        self._kinds = {}
        self.I.kind_hook = self.kind_of

    # ------------------------------------------------------------------ contexts
    def contexts(self):
        """{(concrete public class, calculated attribute): Cx} — every update rule interpreted with self exact."""
        if self._ctx is None:
            out = {}
            pm = self.pm
            for c in pm.ALL:
                for x in pm.calc(c):
                    owner, fn = pm.find_method(c, "update_" + x)
                    if fn is None:
                        out[(c, x)] = None       # reported by R-CALC
                        continue
                    out[(c, x)] = self.I.run_rule(c, x)
            self._ctx = out
        return self._ctx

    def kind_of(self, c, x):
        """explainable kinds a calculated attribute can hold = kinds written by its rule (lazy, memoised)"""
        if (c, x) in self._kinds:
            return self._kinds[(c, x)]
        self._kinds[(c, x)] = F({"?"})       # cycle guard
        owner, fn = self.pm.find_method(c, "update_" + x)
        ks = set()
        if fn is not None:
            cx = self.I.run_rule(c, x)
            for w in cx.writes.get(x, []):
                ks |= set(w.value.ek) if w.value is not None and w.value.k == "E" else {"?"}
        self._kinds[(c, x)] = F(ks or {"?"})
        return self._kinds[(c, x)]

    def unknowns(self, keys=None):
        out = []
        for k, cx in self.contexts().items():
            if cx is None or (keys is not None and k not in keys):
                continue
            for u in cx.unknown:
                out.append(f"{k[0]}.update_{k[1]}: {u}")
        return sorted(set(out))

    def is_calc(self, cls, attr):
        return cls in self.pm.classes and cls in self.pm.ALL and attr in self.pm.calc(cls)

    # ------------------------------------------------------------------ provenance closures
    def anc_of(self, c, x):
        """union of the recorded ancestors over the write sites of (c, x), as (class, attr) pairs"""
        if (c, x) not in self._anc:
            cx = self.contexts().get((c, x))
            out = set()
            if cx is not None:
                for w in cx.writes.get(x, []):
                    out |= {(r[0], r[1]) for r in w.parents}
            self._anc[(c, x)] = out
        return self._anc[(c, x)]

    def reads_of(self, c, x):
        if (c, x) not in self._reads:
            cx = self.contexts().get((c, x))
            self._reads[(c, x)] = {(r[0], r[1]) for r in cx.reads} if cx is not None else set()
        return self._reads[(c, x)]

    def closure(self, pairs, step):
        """transitive closure of (class, attr) pairs through `step` for calculated attributes"""
        seen = set()
        todo = list(pairs)
        while todo:
            p = todo.pop()
            if p in seen:
                continue
            seen.add(p)
            if self.is_calc(*p):
                todo.extend(step(*p))
        return seen

    def anc_star(self, refs):
        return self.closure({(r[0], r[1]) for r in refs}, self.anc_of)

    def read_star(self, c, x):
        return self.closure(self.reads_of(c, x), self.reads_of)

    # ------------------------------------------------------------------ class-level dependency graph G
    def G(self):
        """{public class: set of public classes its `modeling_objects_whose_attributes_depend_directly_on_me` yields}"""
        if self._G is None:
            G, unk = {}, []
            for c in self.pm.ALL:
                cx = Cx(c, "modeling_objects_whose_attributes_depend_directly_on_me")
                out, cx = self.I.run_method(c, "modeling_objects_whose_attributes_depend_directly_on_me", cx)
                tg = set()

                def collect(v):
                    if v is None:
                        return
                    if v.k == "obj":
                        tg.update(v.cls)
                    if v.k in ("list", "dict") and v.elem is not None:
                        collect(v.elem)
                collect(out)
                G[c] = {t for t in tg if t in self.pm.ALL}
                unk += [f"{c}.modeling_objects_whose_attributes_depend_directly_on_me: {u}" for u in cx.unknown]
            self._G, self._G_unknown = G, unk
        return self._G

    def reach(self, c):
        G = self.G()
        seen, todo = set(), [c]
        while todo:
            x = todo.pop()
            if x in seen:
                continue
            seen.add(x)
            todo.extend(G.get(x, ()))
        return seen

    # ------------------------------------------------------------------ misc
    def loc(self, path, node):
        return path, getattr(node, "lineno", 0)
