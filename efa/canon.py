"""Canonical form of the program model (applied once, by the front end, to every module after parsing).

The rules decide properties of *behaviour-relevant structure*; they should not care whether a computation is written in
one function or spread over private helpers, whether a list of names is a literal or a module constant, or whether a
value passes through a temporary. Instead of teaching every rule every such spelling, the front end rewrites the parsed
modules into one canonical spelling — each step a semantics-preserving source transformation (the arguments of an
inlined call may be evaluated a different number of times, which no rule observes):

 1. module-level and class-level constants bound once to a literal of constants are substituted at their uses;
 2. calls of *private* helpers (`_name`, not dunder) defined in the same module / class hierarchy are inlined:
      - statement positions (`_h(a)`, `x = _h(a)`, `x += _h(a)`, `return _h(a)`): the helper's body is spliced in, its
        early returns turned into an if/else ladder, its locals renamed `<name>__<helper>`;
      - any position, for helpers that are a single `return <expr>` (and private single-expression properties):
        the expression is substituted;
    a helper none of whose references remain is dropped from the model (its body now lives in its callers); a helper that
    cannot be inlined everywhere (a `return` inside a loop, recursion, *args, an override in a subclass) stays, and is
    then analysed as the function it is;
 3. single-use temporaries consumed by the next statement are folded (frontend.fold_single_use_temporaries).

Reports keep pointing at real source lines: inlined statements carry the line of the call they replace.
"""
import ast

from .astutil import clone, substitute, substitute_stmt


def norm_name(e):
    try:
        return ast.unparse(e)
    except Exception:
        return ""


class NotInlinable(Exception):
    pass


def _is_private(name):
    return name.startswith("_") and not name.startswith("__")


def _decorators(fn):
    return {d.id if isinstance(d, ast.Name) else d.attr if isinstance(d, ast.Attribute) else "?" for d in fn.decorator_list}


def _const_literal(e):
    if isinstance(e, ast.Constant):
        return isinstance(e.value, (str, int, float, bool)) or e.value is None
    if isinstance(e, (ast.Tuple, ast.List, ast.Set)):
        return all(_const_literal(x) for x in e.elts)
    if isinstance(e, ast.UnaryOp) and isinstance(e.op, ast.USub):
        return _const_literal(e.operand)
    return False


# ------------------------------------------------------------------------------------------------ 0. match statements
def lower_match_statements(tree):
    """`match subject: case …` read as the if / elif chain it abbreviates, for the pattern forms that have one:
        case Cls(attr=name, …)      ->  if isinstance(s, Cls): name = s.attr; …
        case A() | B() [as name]    ->  if isinstance(s, (A, B)): [name = s]
        case <constant> / A.B       ->  if s == <value>
        case name / case _          ->  else: [name = s]
    with or without a guard (`if g` after the bindings is read as a nested `if`, the later cases going to its else —
    only done when the guarded case is the last but one, or has no bindings). A subject that is not a plain name or
    attribute chain is bound to a temporary first. Returns the number of match statements lowered; any other pattern
    form leaves the statement as it is."""
    count = [0]

    def located(new, at):
        for y in ast.walk(new):
            if isinstance(y, (ast.expr, ast.stmt)) and getattr(y, "lineno", None) is None:
                y.lineno, y.col_offset = at.lineno, at.col_offset
                y.end_lineno, y.end_col_offset = getattr(at, "end_lineno", at.lineno), getattr(at, "end_col_offset", 0)
        return new

    def pattern(p, subj):
        """(test expr or None for irrefutable, [binding statements]) or None"""
        if isinstance(p, ast.MatchAs):
            if p.pattern is None:
                return None, ([ast.Assign(targets=[ast.Name(id=p.name, ctx=ast.Store())], value=clone(subj))] if p.name else [])
            r = pattern(p.pattern, subj)
            if r is None:
                return None
            t, b = r
            return t, b + [ast.Assign(targets=[ast.Name(id=p.name, ctx=ast.Store())], value=clone(subj))]
        if isinstance(p, ast.MatchValue):
            return ast.Compare(left=clone(subj), ops=[ast.Eq()], comparators=[clone(p.value)]), []
        if isinstance(p, ast.MatchSingleton):
            return ast.Compare(left=clone(subj), ops=[ast.Is()], comparators=[ast.Constant(value=p.value)]), []
        if isinstance(p, ast.MatchClass):
            if p.patterns:
                return None
            binds = []
            for a, sp in zip(p.kwd_attrs, p.kwd_patterns):
                if not (isinstance(sp, ast.MatchAs) and sp.pattern is None):
                    return None
                if sp.name:
                    binds.append(ast.Assign(targets=[ast.Name(id=sp.name, ctx=ast.Store())],
                                            value=ast.Attribute(value=clone(subj), attr=a, ctx=ast.Load())))
            return ast.Call(func=ast.Name(id="isinstance", ctx=ast.Load()), args=[clone(subj), clone(p.cls)], keywords=[]), binds
        if isinstance(p, ast.MatchOr):
            classes = []
            for alt in p.patterns:
                if not (isinstance(alt, ast.MatchClass) and not alt.patterns and not alt.kwd_attrs):
                    return None
                classes.append(clone(alt.cls))
            return ast.Call(func=ast.Name(id="isinstance", ctx=ast.Load()),
                            args=[clone(subj), ast.Tuple(elts=classes, ctx=ast.Load())], keywords=[]), []
        return None

    def lower(m):
        subj = m.subject
        pre = []
        b = subj
        while isinstance(b, ast.Attribute):
            b = b.value
        if not isinstance(b, ast.Name):
            pre = [ast.Assign(targets=[ast.Name(id="_match_subject", ctx=ast.Store())], value=subj)]
            subj = ast.Name(id="_match_subject", ctx=ast.Load())
        arms = []
        for c in m.cases:
            r = pattern(c.pattern, subj)
            if r is None:
                return None
            arms.append((r[0], r[1], c.guard, c.body))
        chain = None
        for i in range(len(arms) - 1, -1, -1):
            t, binds, guard, body = arms[i]
            rest = chain or []
            if guard is not None:
                if binds and rest and not (t is None):
                    return None
                inner = [ast.If(test=guard, body=body, orelse=rest)] if (binds or t is None) else None
                if inner is None:
                    more = list(guard.values) if isinstance(guard, ast.BoolOp) and isinstance(guard.op, ast.And) else [guard]
                    t = ast.BoolOp(op=ast.And(), values=[t] + more)
                    arm_body = binds + body
                else:
                    arm_body = binds + inner
                    if t is not None and rest:
                        return None
            else:
                arm_body = binds + body
            if t is None:
                chain = arm_body
            else:
                chain = [ast.If(test=t, body=arm_body, orelse=rest)]
        return [located(x, m) for x in pre + (chain or [ast.Pass()])]

    def rewrite(stmts):
        out = []
        for st in stmts:
            for field in ("body", "orelse", "finalbody"):
                if isinstance(getattr(st, field, None), list) and not isinstance(st, ast.Match):
                    setattr(st, field, rewrite(getattr(st, field)))
            for h in getattr(st, "handlers", []):
                h.body = rewrite(h.body)
            if isinstance(st, ast.Match):
                for c in st.cases:
                    c.body = rewrite(c.body)
                new = lower(st)
                if new is not None:
                    count[0] += 1
                    out.extend(new)
                    continue
            out.append(st)
        return out
    tree.body = rewrite(tree.body)
    return count[0]


# ------------------------------------------------------------------------------------------------ 0b. partialmethod
def lower_callable_instances(tree):
    """module-level `name = Klass(<constants>)` with Klass a class of the same module whose `__init__` only stores its
    parameters (`self.p = p`) and which defines `__call__`: `name` reads as the function `def name(<params of __call__>)`
    with the body of `__call__`, `self.p` replaced by the constant it was built with (a function turned into a small
    callable object). Returns the number of instances lowered."""
    classes = {c.name: c for c in tree.body if isinstance(c, ast.ClassDef)}
    n = 0
    for i, st in enumerate(list(tree.body)):
        if not (isinstance(st, ast.Assign) and len(st.targets) == 1 and isinstance(st.targets[0], ast.Name)
                and isinstance(st.value, ast.Call) and isinstance(st.value.func, ast.Name) and st.value.func.id in classes
                and all(isinstance(a, ast.Constant) for a in st.value.args)
                and all(k.arg and isinstance(k.value, ast.Constant) for k in st.value.keywords)):
            continue
        k = classes[st.value.func.id]
        if k.bases and not all(isinstance(b, ast.Name) and b.id == "object" for b in k.bases):
            continue
        init = next((f for f in k.body if isinstance(f, ast.FunctionDef) and f.name == "__init__"), None)
        call = next((f for f in k.body if isinstance(f, ast.FunctionDef) and f.name == "__call__"), None)
        if call is None or call.decorator_list or not call.args.args:
            continue
        fields = {}
        if init is not None:
            ps = [a.arg for a in init.args.args][1:]
            bound = dict(zip(ps, st.value.args))
            bound.update({kw.arg: kw.value for kw in st.value.keywords})
            for d_, p_ in zip(reversed(init.args.defaults), reversed(ps)):
                bound.setdefault(p_, d_)
            ok = True
            for b in init.body:
                if isinstance(b, ast.Expr) and isinstance(b.value, ast.Constant):
                    continue
                if isinstance(b, ast.Assign) and len(b.targets) == 1 and isinstance(b.targets[0], ast.Attribute) \
                        and isinstance(b.targets[0].value, ast.Name) and b.targets[0].value.id == init.args.args[0].arg \
                        and isinstance(b.value, ast.Name) and b.value.id in bound and isinstance(bound[b.value.id], ast.Constant):
                    fields[b.targets[0].attr] = bound[b.value.id]
                else:
                    ok = False
            if not ok:
                continue
        elif st.value.args or st.value.keywords:
            continue
        me = call.args.args[0].arg
        # self used for anything else than reading a stored constant: not a function in disguise
        bad = False
        for x in ast.walk(call):
            if isinstance(x, ast.Name) and x.id == me:
                par_ok = any(isinstance(y, ast.Attribute) and y.value is x and y.attr in fields and isinstance(y.ctx, ast.Load)
                             for y in ast.walk(call))
                bad = bad or not par_ok
        if bad:
            continue

        class S(ast.NodeTransformer):
            def visit_Attribute(self, a):
                self.generic_visit(a)
                if isinstance(a.value, ast.Name) and a.value.id == me and a.attr in fields:
                    return ast.copy_location(clone(fields[a.attr]), a)
                return a
        body = [S().visit(clone(b)) for b in call.body]
        fn = ast.FunctionDef(name=st.targets[0].id, args=clone(call.args), body=body, decorator_list=[], returns=None,
                             type_comment=None, lineno=st.lineno, col_offset=st.col_offset)
        fn.args.args = fn.args.args[1:]
        if hasattr(call, "type_params"):
            fn.type_params = []
        ast.fix_missing_locations(fn)
        idx = next(j for j, y in enumerate(tree.body) if y is st)
        tree.body[idx] = fn
        n += 1
    return n


def lower_partialmethods(tree):
    """class-level `name = partialmethod(method, <constants>)` read as the method it defines: `def name(self, <remaining
    parameters>)` with the body of `method`, the bound parameters replaced by the constants and what that makes constant
    folded (f-strings, getattr / setattr with a known name). Returns the number of definitions lowered."""
    from .astutil import fold_static
    n = 0
    for c in [x for x in ast.walk(tree) if isinstance(x, ast.ClassDef)]:
        meths = {f.name: f for f in c.body if isinstance(f, ast.FunctionDef)}
        new_body = []
        for st in c.body:
            v = st.value if isinstance(st, ast.Assign) and len(st.targets) == 1 and isinstance(st.targets[0], ast.Name) else None
            if isinstance(v, ast.Call) and norm_name(v.func) in ("partialmethod", "functools.partialmethod") and v.args \
                    and isinstance(v.args[0], ast.Name) and v.args[0].id in meths \
                    and all(_const_literal(a) for a in v.args[1:]) and all(k.arg and _const_literal(k.value) for k in v.keywords):
                h = meths[v.args[0].id]
                ps = [a.arg for a in h.args.args]
                if not ps or h.args.vararg or h.args.kwarg or _decorators(h):
                    new_body.append(st)
                    continue
                bound = dict(zip(ps[1:], v.args[1:]))
                bound.update({k.arg: k.value for k in v.keywords})
                if not set(bound) <= set(ps[1:]):
                    new_body.append(st)
                    continue
                f = clone(h)
                f.name = st.targets[0].id
                keep = [a for a in f.args.args if a.arg not in bound]
                nd = len(f.args.defaults)
                dflt = dict(zip([a.arg for a in f.args.args][len(f.args.args) - nd:], f.args.defaults)) if nd else {}
                f.args.args = keep
                f.args.defaults = [dflt[a.arg] for a in keep if a.arg in dflt]
                f.body = [substitute_stmt(b, bound) for b in f.body]
                fold_static(f)
                for x in ast.walk(f):
                    if isinstance(x, (ast.expr, ast.stmt)):
                        x.lineno, x.col_offset = st.lineno, st.col_offset
                        x.end_lineno, x.end_col_offset = getattr(st, "end_lineno", st.lineno), getattr(st, "end_col_offset", 0)
                new_body.append(ast.copy_location(f, st))
                n += 1
            else:
                new_body.append(st)
        c.body = new_body
    return n


# ------------------------------------------------------------------------------------------------ 1. constants
def substitute_constants(tree):
    """module-level `NAME = <literal>` bound exactly once, and class-level ones read as self.NAME / cls.NAME / Class.NAME"""
    n = 0
    stores = {}
    for x in ast.walk(tree):
        if isinstance(x, ast.Name) and isinstance(x.ctx, (ast.Store, ast.Del)):
            stores[x.id] = stores.get(x.id, 0) + 1
        elif isinstance(x, (ast.FunctionDef, ast.ClassDef, ast.AsyncFunctionDef)):
            stores[x.name] = stores.get(x.name, 0) + 1
        elif isinstance(x, ast.arg):
            stores[x.arg] = stores.get(x.arg, 0) + 1
        elif isinstance(x, (ast.Import, ast.ImportFrom)):
            for a in x.names:
                k = (a.asname or a.name).split(".")[0]
                stores[k] = stores.get(k, 0) + 1
        elif isinstance(x, ast.Global):
            for k in x.names:
                stores[k] = stores.get(k, 0) + 5
    consts = {}
    for s in tree.body:
        if isinstance(s, ast.Assign) and len(s.targets) == 1 and isinstance(s.targets[0], ast.Name) \
                and stores.get(s.targets[0].id) == 1 and _const_literal(s.value) and s.targets[0].id.isupper():
            consts[s.targets[0].id] = s.value
    if consts:
        class T(ast.NodeTransformer):
            def visit_Name(self, node):
                nonlocal n
                if isinstance(node.ctx, ast.Load) and node.id in consts:
                    n += 1
                    new = clone(consts[node.id])
                    for y in ast.walk(new):
                        y.lineno, y.col_offset = node.lineno, node.col_offset
                        y.end_lineno, y.end_col_offset = getattr(node, "end_lineno", node.lineno), getattr(node, "end_col_offset", 0)
                    return new
                return node
        T().visit(tree)
    # class-level constants
    for c in [x for x in tree.body if isinstance(x, ast.ClassDef)]:
        cc = {}
        for s in c.body:
            if isinstance(s, ast.Assign) and len(s.targets) == 1 and isinstance(s.targets[0], ast.Name) \
                    and _const_literal(s.value) and s.targets[0].id.isupper():
                cc[s.targets[0].id] = s.value
        if not cc:
            continue

        class U(ast.NodeTransformer):
            def visit_Attribute(self, node):
                nonlocal n
                self.generic_visit(node)
                if isinstance(node.ctx, ast.Load) and node.attr in cc and isinstance(node.value, ast.Name) \
                        and node.value.id in ("self", "cls", c.name):
                    n += 1
                    new = clone(cc[node.attr])
                    for y in ast.walk(new):
                        y.lineno, y.col_offset = node.lineno, node.col_offset
                        y.end_lineno, y.end_col_offset = getattr(node, "end_lineno", node.lineno), getattr(node, "end_col_offset", 0)
                    return new
                return node
        U().visit(c)
    return n


# ------------------------------------------------------------------------------------------------ 2. helpers
def _contains_return(s):
    """a Return inside statement s, not counting nested function definitions"""
    todo = [s]
    while todo:
        x = todo.pop()
        if isinstance(x, ast.Return):
            return True
        for ch in ast.iter_child_nodes(x):
            if not isinstance(ch, (ast.FunctionDef, ast.AsyncFunctionDef, ast.Lambda, ast.ClassDef)):
                todo.append(ch)
    return False


def _single_exit(stmts, on_return):
    """statement list with every `return e` replaced by on_return(e) and the code after an exiting `if` moved into the
    other arm; NotInlinable if a return sits inside a loop / try / with"""
    out = []
    for i, s in enumerate(stmts):
        if isinstance(s, ast.Return):
            out += on_return(s.value)
            return out, True
        if isinstance(s, ast.Raise):
            out.append(s)
            return out, True
        if isinstance(s, ast.If):
            b, bx = _single_exit(s.body, on_return)
            o, ox = _single_exit(s.orelse, on_return)
            if bx and ox:
                out.append(ast.If(test=s.test, body=b or [ast.Pass()], orelse=o))
                return out, True
            if bx or ox:
                rest, rx = _single_exit(stmts[i + 1:], on_return)
                if bx:
                    out.append(ast.If(test=s.test, body=b or [ast.Pass()], orelse=o + rest))
                else:
                    out.append(ast.If(test=s.test, body=(b + rest) or [ast.Pass()], orelse=o))
                return out, rx
            out.append(ast.If(test=s.test, body=b or [ast.Pass()], orelse=o))
            continue
        if isinstance(s, (ast.For, ast.While, ast.Try, ast.With, ast.AsyncFor, ast.AsyncWith)) and _contains_return(s):
            raise NotInlinable("return inside a loop / try / with")
        out.append(s)
    return out, False


def _single_return_expr(h):
    body = [b for b in h.body if not (isinstance(b, ast.Expr) and isinstance(b.value, ast.Constant))]
    if len(body) == 1 and isinstance(body[0], ast.Return) and body[0].value is not None:
        return body[0].value
    return None


def _params(h, is_method):
    a = h.args
    if a.kwarg or a.posonlyargs:
        raise NotInlinable("**kwargs / positional-only parameters")
    ps = [x.arg for x in a.args]
    defaults = dict(zip(ps[len(ps) - len(a.defaults):], a.defaults)) if a.defaults else {}
    for x, d in zip(a.kwonlyargs, a.kw_defaults):
        ps.append(x.arg)
        if d is not None:
            defaults[x.arg] = d
    if is_method and "staticmethod" not in _decorators(h):
        ps = ps[1:]
    return ps, defaults


def _simple(e):
    if isinstance(e, (ast.Name, ast.Constant)):
        return True
    if isinstance(e, ast.Attribute):
        return _simple(e.value)
    if isinstance(e, ast.Subscript):
        return _simple(e.value) and isinstance(e.slice, (ast.Constant, ast.Name))
    return False


def _bind(h, call, is_method, tag):
    """(mapping name -> expression for substitution, pre-assignments [Assign]) for one call of helper h"""
    ps, defaults = _params(h, is_method)
    if any(isinstance(a, ast.Starred) for a in call.args) or any(k.arg is None for k in call.keywords):
        raise NotInlinable("starred call")
    npos = len([x for x in h.args.args]) - (1 if (is_method and "staticmethod" not in _decorators(h)) else 0)
    extra = []
    if len(call.args) > npos:
        if h.args.vararg is None:
            raise NotInlinable("too many arguments")
        extra = list(call.args[npos:])
        call = ast.Call(func=call.func, args=list(call.args[:npos]), keywords=call.keywords)
    given = {}
    for p, a in zip(ps, call.args):
        given[p] = a
    for k in call.keywords:
        if k.arg not in ps:
            raise NotInlinable("unknown keyword")
        given[k.arg] = k.value
    for p in ps:
        if p not in given:
            if p not in defaults:
                raise NotInlinable("missing argument")
            given[p] = defaults[p]
    stored = {x.id for x in ast.walk(h) if isinstance(x, ast.Name) and isinstance(x.ctx, (ast.Store, ast.Del))}
    uses = {}
    for x in ast.walk(h):
        if isinstance(x, ast.Name):
            uses[x.id] = uses.get(x.id, 0) + 1
    mapping, pre = {}, []
    if h.args.vararg is not None:
        # *rest: the extra positional arguments as a tuple (spliced again where the helper writes f(*rest, …))
        mapping[h.args.vararg.arg] = ast.Tuple(elts=[clone(x) for x in extra], ctx=ast.Load())
    for p in ps:
        arg = given[p]
        if p in stored or not (_simple(arg) or uses.get(p, 0) <= 1 or isinstance(arg, ast.Lambda)):
            local = f"{p}__{tag}"
            pre.append(ast.Assign(targets=[ast.Name(id=local, ctx=ast.Store())], value=clone(arg)))
            mapping[p] = ast.Name(id=local, ctx=ast.Load())
        else:
            mapping[p] = arg
    # the helper's own locals get a suffix
    for name in stored:
        if name not in ps:
            mapping[name] = ast.Name(id=f"{name}__{tag}", ctx=ast.Load())
    for x in ast.walk(h):
        if isinstance(x, ast.comprehension):
            for y in ast.walk(x.target):
                if isinstance(y, ast.Name) and y.id not in ps:
                    mapping[y.id] = ast.Name(id=f"{y.id}__{tag}", ctx=ast.Load())
    return mapping, pre


class _Simplify(ast.NodeTransformer):
    """f(*(a, b), c) -> f(a, b, c);  getattr(x, "name") -> x.name  (what remains after parameters were substituted)"""
    def visit_Call(self, node):
        self.generic_visit(node)
        if any(isinstance(a, ast.Starred) and isinstance(a.value, ast.Tuple) for a in node.args):
            args = []
            for a in node.args:
                if isinstance(a, ast.Starred) and isinstance(a.value, ast.Tuple):
                    args += a.value.elts
                else:
                    args.append(a)
            node.args = args
        if isinstance(node.func, ast.Name) and node.func.id == "getattr" and len(node.args) == 2 and not node.keywords \
                and isinstance(node.args[1], ast.Constant) and isinstance(node.args[1].value, str) \
                and node.args[1].value.isidentifier():
            return ast.copy_location(ast.Attribute(value=node.args[0], attr=node.args[1].value, ctx=ast.Load()), node)
        return node


def _relocate(nodes, at):
    """Inlined statements are positioned at the call they replace. Rules order statements by `lineno`, so the k-th
    inlined statement gets line + k * step (a fraction: int(lineno) is still the real source line, used in reports);
    statements nested in it continue the count, and a helper inlined inside an inlined helper uses a finer step."""
    base = at.lineno
    step = 1e-3 if float(base).is_integer() else 1e-6
    k = [0]

    def place(stmt):
        k[0] += 1
        ln = base + k[0] * step
        for field, val in ast.iter_fields(stmt):
            if isinstance(val, list):
                for it in val:
                    if isinstance(it, ast.stmt):
                        place(it)
                    elif isinstance(it, ast.AST):
                        for x in ast.walk(it):
                            x.lineno = x.end_lineno = ln
                            x.col_offset, x.end_col_offset = at.col_offset, getattr(at, "end_col_offset", 0)
            elif isinstance(val, ast.AST) and not isinstance(val, ast.stmt):
                for x in ast.walk(val):
                    x.lineno = x.end_lineno = ln
                    x.col_offset, x.end_col_offset = at.col_offset, getattr(at, "end_col_offset", 0)
        stmt.lineno = ln
        stmt.end_lineno = max([ln] + [getattr(x, "end_lineno", ln) or ln for x in ast.walk(stmt)])
        stmt.col_offset, stmt.end_col_offset = at.col_offset, getattr(at, "end_col_offset", 0)
    for b in nodes:
        if isinstance(b, ast.stmt):
            place(b)
        else:
            for x in ast.walk(b):
                x.lineno, x.col_offset = at.lineno, at.col_offset
                x.end_lineno, x.end_col_offset = getattr(at, "end_lineno", at.lineno), getattr(at, "end_col_offset", 0)
    return nodes


class Canonicaliser:
    def __init__(self, pm):
        self.pm = pm
        self.done = set()          # ids of FunctionDefs already canonicalised
        self.busy = set()
        self.stats = {"statement_inlines": 0, "expression_inlines": 0, "helpers_dropped": 0, "not_inlinable": []}
        self.inlined_into = {}     # helper name -> qualified names of the functions it was inlined into
        self.module_funcs = {}     # module name -> {fname: FunctionDef}
        self.refcount = {}
        for m, (rel, tree, _) in pm.modules.items():
            self.module_funcs[m] = {f.name: f for f in tree.body if isinstance(f, ast.FunctionDef)}
            for x in ast.walk(tree):
                if isinstance(x, ast.Name):
                    self.refcount[x.id] = self.refcount.get(x.id, 0) + 1
                elif isinstance(x, ast.Attribute):
                    self.refcount[x.attr] = self.refcount.get(x.attr, 0) + 1
                elif isinstance(x, ast.alias):
                    k = (x.asname or x.name).split(".")[-1]
                    self.refcount[k] = self.refcount.get(k, 0) + 10      # imported elsewhere: not a local step
                elif isinstance(x, ast.Constant) and isinstance(x.value, str) and x.value.isidentifier():
                    self.refcount[x.value] = self.refcount.get(x.value, 0) + 10

    # -- resolution
    def resolve(self, call, modname, cls, thin=False):
        f = call.func
        if thin and isinstance(f, ast.Attribute) and isinstance(f.value, ast.Name) and f.value.id == "self" and cls is not None \
                and not f.attr.startswith("__") and not _is_private(f.attr):
            # a public method used by a thin delegating wrapper (`def append(self, v): self.store_value_with("append", v)`)
            owner, h = self.pm.find_method(cls, f.attr)
            if h is None or _decorators(h):
                return None
            for k in self.pm.subclasses(owner):
                if k != owner and any(isinstance(x, ast.FunctionDef) and x.name == f.attr for x in self.pm.classes[k].node.body):
                    return None
            return h, True
        if isinstance(f, ast.Name) and _is_private(f.id):
            h = self.module_funcs.get(modname, {}).get(f.id)
            return (h, False) if h is not None else None
        if isinstance(f, ast.Name) and self.refcount.get(f.id) == 1:
            # a public module-level function referenced exactly once in the whole package, from its own module: a step
            # split out of its only caller (the definition stays: it may be imported from outside)
            h = self.module_funcs.get(modname, {}).get(f.id)
            return (h, False) if h is not None else None
        if isinstance(f, ast.Attribute) and isinstance(f.value, ast.Name) and _is_private(f.value.id) and f.value.id != cls \
                and f.value.id[1:2].isupper():
            # `_Record.helper(…)`: a static method of a private value class of the same module
            tree_ = self.pm.modules[modname][1] if modname in self.pm.modules else None
            k_ = next((c_ for c_ in (tree_.body if tree_ is not None else []) if isinstance(c_, ast.ClassDef)
                       and c_.name == f.value.id), None)
            h = next((m_ for m_ in (k_.body if k_ is not None else []) if isinstance(m_, ast.FunctionDef) and m_.name == f.attr), None)
            if h is not None and _decorators(h) == {"staticmethod"}:
                return h, False
            return None
        if isinstance(f, ast.Attribute) and _is_private(f.attr) and isinstance(f.value, ast.Name) and cls is not None \
                and f.value.id in ("self", "cls", cls):
            owner, h = self.pm.find_method(cls, f.attr)
            if h is None or "property" in _decorators(h):
                return None
            # dynamic dispatch: a subclass that redefines the helper makes the static choice wrong
            for k in self.pm.subclasses(owner):
                if k != owner and any(isinstance(x, ast.FunctionDef) and x.name == f.attr for x in self.pm.classes[k].node.body):
                    return None
            if f.value.id == cls and "staticmethod" not in _decorators(h) and "classmethod" not in _decorators(h):
                return None
            return h, True
        return None

    def ok_helper(self, h):
        if isinstance(h, ast.AsyncFunctionDef) or any(isinstance(x, (ast.Yield, ast.YieldFrom, ast.Await)) for x in ast.walk(h)):
            return False
        if _decorators(h) - {"staticmethod", "classmethod"}:
            return False
        if any(isinstance(x, (ast.Global, ast.Nonlocal)) for x in ast.walk(h)):
            return False
        return id(h) not in self.busy

    # -- one function
    def canon_function(self, fn, modname, cls):
        if id(fn) in self.done or id(fn) in self.busy:
            return
        self.busy.add(id(fn))
        try:
            if cls is not None:
                self.unroll_table_loops(fn, cls)
            if cls is not None:
                self.hoist_first_evaluated_helper(fn, modname, cls)
            from .astutil import inline_local_procedures, unroll_literal_loops
            n_u = unroll_literal_loops(fn)
            if n_u:
                self.stats["literal_loops_unrolled"] = self.stats.get("literal_loops_unrolled", 0) + n_u
            n_ = inline_local_procedures(fn)
            if n_:
                self.stats["local_procedure_calls"] = self.stats.get("local_procedure_calls", 0) + n_
            fn.body = self.block(fn.body, modname, cls, fn)
            self.expr_inline(fn, modname, cls)
            self.simplify_function(fn, modname, cls)
            # constants passed to an inlined helper decide its tests; what that uncovers (a lambda applied, a helper call
            # that was an argument) is read once more
            from .astutil import fold_constant_tests, fold_static
            if self.inlined_into and any(isinstance(x, ast.Call) and isinstance(x.func, (ast.Name, ast.Call))
                                         and (getattr(x.func, "id", None) in ("setattr", "getattr") or isinstance(x.func, ast.Call))
                                         for x in ast.walk(fn)):
                # what inlining a helper with constant arguments leaves: setattr(self, "name", v), partial(f, k=c)(x)
                fold_static(fn)
            for _round in range(2):
                if not fold_constant_tests(fn):
                    break
                fold_static(fn)
                self.stats["constant_tests_folded"] = self.stats.get("constant_tests_folded", 0) + 1
                fn.body = self.block(fn.body, modname, cls, fn)
                self.expr_inline(fn, modname, cls)
                self.simplify_function(fn, modname, cls)
        finally:
            self.busy.discard(id(fn))
            self.done.add(id(fn))

    def hoist_first_evaluated_helper(self, fn, modname, cls):
        """`return Build(self._prepare(x).combined(f), …)`: a call of a private multi-statement helper of the class that is
        the first thing the statement evaluates (receiver of receivers, first argument of first arguments) is given a
        name of its own — `prepare__hoisted = self._prepare(x)` just before — so that the statement-level inlining reads it
        like any `v = self._helper(…)`."""
        me = self

        def first_evaluated(e):
            while True:
                if isinstance(e, ast.Call):
                    r = me.resolve(e, modname, cls)
                    if r is not None and isinstance(e.func, ast.Attribute) and isinstance(e.func.value, ast.Name) \
                            and e.func.value.id == "self" and _single_return_expr(r[0]) is None and me.ok_helper(r[0]) \
                            and all(isinstance(a, (ast.Name, ast.Constant)) for a in e.args) and not e.keywords:
                        return e
                    if isinstance(e.func, ast.Attribute):
                        e = e.func.value
                    elif isinstance(e.func, ast.Name) and e.args and not isinstance(e.args[0], ast.Starred):
                        e = e.args[0]
                    else:
                        return None
                elif isinstance(e, (ast.Attribute, ast.Subscript)):
                    e = e.value
                elif isinstance(e, ast.BinOp):
                    e = e.left
                else:
                    return None

        def visit(stmts):
            out = []
            for st in stmts:
                for fld in ("body", "orelse", "finalbody"):
                    sub = getattr(st, fld, None)
                    if isinstance(sub, list) and sub and isinstance(sub[0], ast.stmt) and not isinstance(st, (ast.FunctionDef, ast.ClassDef)):
                        setattr(st, fld, visit(sub))
                if isinstance(st, (ast.Return, ast.Assign, ast.Expr)) and st.value is not None:
                    c = first_evaluated(st.value)
                    if c is not None and c is not st.value:
                        tmp = f"{c.func.attr.lstrip('_')}__hoisted"
                        if not any(isinstance(x, ast.Name) and x.id == tmp for x in ast.walk(fn)):
                            class R(ast.NodeTransformer):
                                def visit_Call(self, node):
                                    if node is c:
                                        return ast.copy_location(ast.Name(id=tmp, ctx=ast.Load()), node)
                                    self.generic_visit(node)
                                    return node
                            out.append(ast.copy_location(ast.Assign(targets=[ast.Name(id=tmp, ctx=ast.Store())], value=c), st))
                            st.value = R().visit(st.value)
                            me.stats["first_evaluated_helpers_hoisted"] = me.stats.get("first_evaluated_helpers_hoisted", 0) + 1
                out.append(st)
            return out
        fn.body = visit(fn.body)
        ast.fix_missing_locations(fn)

    def unroll_table_loops(self, fn, cls):
        """`for name in self.TABLE:` / `for name, row in self.TABLE.items():` over a class-level literal table (a dict with
        constant keys, a list / tuple of constants; at most 8 entries) whose body names attributes through the loop
        variable (setattr / getattr): the loop is written out, one copy of the body per entry with the constants in place —
        `setattr(self, name, v)` then reads `self.<entry> = v`. Loops with break / continue / else are left alone."""
        from .astutil import fold_static
        me = self

        def table_of(e):
            if isinstance(e, ast.Call) and isinstance(e.func, ast.Attribute) and e.func.attr in ("items", "keys", "values") \
                    and not e.args and not e.keywords:
                t, how = table_of(e.func.value)
                return (t, e.func.attr) if (how == "iter" and isinstance(t, ast.Dict)) else (None, None)
            if isinstance(e, ast.Attribute) and isinstance(e.value, ast.Name) and e.value.id in ("self", "cls") \
                    and e.attr.isupper():
                try:
                    _k, t = me.pm._class_const(cls, e.attr)
                except Exception:
                    t = None
                if isinstance(t, ast.Dict) and t.keys and len(t.keys) <= 8 and all(isinstance(k_, ast.Constant) for k_ in t.keys):
                    return t, "iter"
                if isinstance(t, (ast.List, ast.Tuple)) and t.elts and len(t.elts) <= 8 \
                        and all(isinstance(x_, ast.Constant) for x_ in t.elts):
                    return t, "iter"
            return None, None

        def rows(t, how, target):
            """per entry: {loop variable: expression} or None"""
            if isinstance(t, ast.Dict):
                if how in ("iter", "keys"):
                    return [{target.id: k_} for k_ in t.keys] if isinstance(target, ast.Name) else None
                if how == "values":
                    src = list(t.values)
                    pairs = None
                else:
                    src, pairs = None, list(zip(t.keys, t.values))
                if pairs is not None:
                    if not (isinstance(target, ast.Tuple) and len(target.elts) == 2 and isinstance(target.elts[0], ast.Name)):
                        return None
                    out = []
                    for k_, v_ in pairs:
                        m = {target.elts[0].id: k_}
                        tv = target.elts[1]
                        if isinstance(tv, ast.Name):
                            m[tv.id] = v_
                        elif isinstance(tv, ast.Tuple) and isinstance(v_, ast.Tuple) and len(tv.elts) == len(v_.elts) \
                                and all(isinstance(x_, ast.Name) for x_ in tv.elts):
                            m.update({x_.id: y_ for x_, y_ in zip(tv.elts, v_.elts)})
                        else:
                            return None
                        out.append(m)
                    return out
            else:
                src = list(t.elts)
            if isinstance(target, ast.Name):
                return [{target.id: v_} for v_ in src]
            return None

        def visit(stmts):
            out = []
            for st in stmts:
                for fld in ("body", "orelse", "finalbody"):
                    if isinstance(getattr(st, fld, None), list) and not isinstance(st, (ast.FunctionDef, ast.ClassDef)):
                        setattr(st, fld, visit(getattr(st, fld)))
                if isinstance(st, ast.For) and not st.orelse and not any(
                        isinstance(x, (ast.Break, ast.Continue, ast.Yield, ast.YieldFrom)) for x in ast.walk(st)):
                    t, how = table_of(st.iter)
                    if t is not None:
                        rs = rows(t, how, st.target)
                        vars_ = set().union(*[set(r) for r in rs]) if rs else set()
                        names_attrs = any(
                            isinstance(c, ast.Call) and isinstance(c.func, ast.Name) and c.func.id in ("setattr", "getattr")
                            and len(c.args) >= 2 and any(isinstance(x, ast.Name) and x.id in vars_ for x in ast.walk(c.args[1]))
                            for c in ast.walk(st))
                        rebinds = any(isinstance(x, ast.Name) and x.id in vars_ and isinstance(x.ctx, ast.Store)
                                      for b in st.body for x in ast.walk(b))
                        if rs and names_attrs and not rebinds:
                            for r in rs:
                                copy_ = ast.Module(body=[substitute_stmt(b, r) for b in st.body], type_ignores=[])
                                copy_ = fold_static(copy_)
                                for b in copy_.body:
                                    for x in ast.walk(b):
                                        if hasattr(x, "lineno") or isinstance(x, (ast.expr, ast.stmt)):
                                            ast.copy_location(x, st)
                                    out.append(b)
                            me.stats["table_loops_unrolled"] = me.stats.get("table_loops_unrolled", 0) + 1
                            continue
                out.append(st)
            return out
        fn.body = visit(fn.body)

    # -- what inlining leaves behind
    def simplify_function(self, fn, modname, cls):
        """(1) `x = <A or B or None, by branch>; if x is not None: return x` becomes returns in the branches that built
        something (the residue of inlining a helper that answers "handled / not handled" with a value or None);
        (2) `self.TABLE[<constant>]` of a class-level literal dict reads as the entry; (3) a local bound once to a
        callable expression (a lambda, `operator.add`) is replaced where it is called, applied lambdas are reduced and
        operator.add / sub / mul / truediv(a, b) read as a + b …"""
        changed = self._thread_optional_returns(fn.body)
        table_hit = [False]
        me = self

        class Tables(ast.NodeTransformer):
            def visit_Subscript(self, node):
                self.generic_visit(node)
                if isinstance(node.ctx, ast.Load) and isinstance(node.value, ast.Attribute) and isinstance(node.value.value, ast.Name) \
                        and node.value.value.id in ("self", "cls") and cls is not None and isinstance(node.slice, ast.Constant) \
                        and node.value.attr.isupper():
                    try:
                        kc, t = me.pm._class_const(cls, node.value.attr)
                    except Exception:
                        t = None
                    if isinstance(t, ast.Dict):
                        for k, v in zip(t.keys, t.values):
                            if isinstance(k, ast.Constant) and k.value == node.slice.value:
                                table_hit[0] = True
                                return ast.copy_location(clone(v), node)
                return node
        Tables().visit(fn)
        # `from operator import mul [as m]`: the bare names
        from_ops = {}
        tree_ = self.pm.modules[modname][1] if modname in self.pm.modules else None
        for n in (tree_.body if tree_ is not None else []):
            if isinstance(n, ast.ImportFrom) and n.module == "operator":
                for a in n.names:
                    from_ops[a.asname or a.name] = a.name
        uses_ops = bool(from_ops) and any(isinstance(x, ast.Name) and x.id in from_ops and isinstance(x.ctx, ast.Load)
                                          for x in ast.walk(fn)) and not any(
            isinstance(x, ast.Name) and x.id in from_ops and isinstance(x.ctx, ast.Store) for x in ast.walk(fn))
        aliases0 = self._import_aliases(modname)

        def caller_kind(v):
            """'methodcaller' / 'attrgetter' / 'itemgetter' when v is a call of that operator function with a constant
            first argument"""
            if not (isinstance(v, ast.Call) and v.args and isinstance(v.args[0], ast.Constant)):
                return None
            f = v.func
            nm = None
            if isinstance(f, ast.Name) and from_ops.get(f.id) in ("methodcaller", "attrgetter", "itemgetter"):
                nm = from_ops[f.id]
            elif isinstance(f, ast.Attribute) and isinstance(f.value, ast.Name) and aliases0.get(f.value.id) == "operator" \
                    and f.attr in ("methodcaller", "attrgetter", "itemgetter"):
                nm = f.attr
            if nm == "methodcaller" and isinstance(v.args[0].value, str) and v.args[0].value.isidentifier() \
                    and all(_simple(a_) for a_ in list(v.args[1:]) + [k_.value for k_ in v.keywords]):
                return nm
            if nm == "attrgetter" and len(v.args) == 1 and not v.keywords and isinstance(v.args[0].value, str) \
                    and all(p_.isidentifier() for p_ in v.args[0].value.split(".")):
                return nm
            if nm == "itemgetter" and len(v.args) == 1 and not v.keywords:
                return nm
            return None
        uses_callers = any(caller_kind(x) for x in ast.walk(fn))
        if not (changed or table_hit[0] or uses_ops or uses_callers):
            return
        # callable locals: `op = operator.add` / `op = lambda …` bound once, used only as `op(…)`
        assigns = {}
        for n in ast.walk(fn):
            if isinstance(n, ast.Assign) and len(n.targets) == 1 and isinstance(n.targets[0], ast.Name):
                assigns.setdefault(n.targets[0].id, []).append(n)
        aliases = self._import_aliases(modname)
        from .astutil import source_order
        for name, defs in assigns.items():
            def callable_value(v):
                if isinstance(v, ast.Attribute):
                    return isinstance(v.value, ast.Name) and aliases.get(v.value.id) == "operator"
                return isinstance(v, ast.Lambda) or bool(caller_kind(v))
            if not all(callable_value(d.value) for d in defs):
                continue
            if any(isinstance(x, ast.Name) and x.id == name and isinstance(x.ctx, ast.Store) and not any(
                    x is d.targets[0] for d in defs) for x in ast.walk(fn)):
                continue        # also bound some other way (loop target, with … as)
            uses = [x for x in ast.walk(fn) if isinstance(x, ast.Name) and x.id == name and isinstance(x.ctx, ast.Load)]
            if not uses or not all(isinstance(getattr(u_, "_parent", None), ast.Call) and u_._parent.func is u_ for u_ in self._with_parents(fn, uses)):
                continue
            # each use is served by the latest definition before it, which must enclose it (same block or an outer one)
            rank = source_order(fn)
            plan, ok = [], True
            for u_ in uses:
                before = [d for d in defs if rank.get(id(d), 10 ** 9) < rank.get(id(u_), -1)]
                if not before:
                    ok = False
                    break
                d = max(before, key=lambda x: rank[id(x)])
                holder, x = getattr(d, "_parent", None), u_
                while x is not None and x is not holder:
                    x = getattr(x, "_parent", None)
                if x is None:
                    ok = False
                    break
                plan.append((u_, d))
            if not ok:
                continue
            for u_, d in plan:
                u_._parent.func = clone(d.value)
            for d in defs:
                self._drop_stmt(fn, d)
        opmap = {"add": ast.Add, "sub": ast.Sub, "mul": ast.Mult, "truediv": ast.Div}

        def is_op(f):
            if isinstance(f, ast.Attribute) and isinstance(f.value, ast.Name) and aliases.get(f.value.id) == "operator" \
                    and f.attr in opmap:
                return f.attr
            if isinstance(f, ast.Name) and uses_ops and from_ops.get(f.id) in opmap:
                return from_ops[f.id]
            return None

        class Fold(ast.NodeTransformer):
            def visit_Call(self, node):
                self.generic_visit(node)
                f = node.func
                # map(<binary operator / lambda>, A, B) reads as (a <op> b for a, b in zip(A, B))
                if isinstance(f, ast.Name) and f.id == "map" and len(node.args) == 3 and not node.keywords \
                        and (is_op(node.args[0]) or (isinstance(node.args[0], ast.Lambda) and len(node.args[0].args.args) == 2)):
                    a_, b_ = ast.Name(id="_map_a", ctx=ast.Load()), ast.Name(id="_map_b", ctx=ast.Load())
                    inner = self.visit_Call(ast.Call(func=node.args[0], args=[a_, b_], keywords=[]))
                    gen = ast.GeneratorExp(elt=inner, generators=[ast.comprehension(
                        target=ast.Tuple(elts=[ast.Name(id="_map_a", ctx=ast.Store()), ast.Name(id="_map_b", ctx=ast.Store())],
                                         ctx=ast.Store()),
                        iter=ast.Call(func=ast.Name(id="zip", ctx=ast.Load()), args=[node.args[1], node.args[2]], keywords=[]),
                        ifs=[], is_async=0)])
                    return ast.copy_location(gen, node)
                # methodcaller("m", a, k=v)(x) is x.m(a, k=v); attrgetter("a.b")(x) is x.a.b; itemgetter(c)(x) is x[c]
                ck = caller_kind(f)
                if ck and len(node.args) == 1 and not node.keywords and not isinstance(node.args[0], ast.Starred):
                    x_ = node.args[0]
                    if ck == "methodcaller":
                        return ast.copy_location(ast.Call(func=ast.Attribute(value=x_, attr=f.args[0].value, ctx=ast.Load()),
                                                          args=list(f.args[1:]), keywords=list(f.keywords)), node)
                    if ck == "attrgetter":
                        out_ = x_
                        for part in f.args[0].value.split("."):
                            out_ = ast.Attribute(value=out_, attr=part, ctx=ast.Load())
                        return ast.copy_location(out_, node)
                    if ck == "itemgetter":
                        return ast.copy_location(ast.Subscript(value=x_, slice=f.args[0], ctx=ast.Load()), node)
                if is_op(f) and isinstance(f, ast.Name) and len(node.args) == 2 and not node.keywords:
                    return ast.copy_location(ast.BinOp(left=node.args[0], op=opmap[is_op(f)](), right=node.args[1]), node)
                if isinstance(f, ast.Lambda) and not node.keywords and len(node.args) == len(f.args.args) \
                        and not any(isinstance(a, ast.Starred) for a in node.args) and not f.args.vararg and not f.args.kwarg:
                    return ast.copy_location(substitute(clone(f.body), {p_.arg: a for p_, a in zip(f.args.args, node.args)}), node)
                if isinstance(f, ast.Attribute) and isinstance(f.value, ast.Name) and aliases.get(f.value.id) == "operator" \
                        and f.attr in opmap and len(node.args) == 2 and not node.keywords:
                    return ast.copy_location(ast.BinOp(left=node.args[0], op=opmap[f.attr](), right=node.args[1]), node)
                return node
        Fold().visit(fn)
        ast.fix_missing_locations(fn)

    def _import_aliases(self, modname):
        out = {}
        tree = self.pm.modules[modname][1] if modname in self.pm.modules else None
        for n in (tree.body if tree is not None else []):
            if isinstance(n, ast.Import):
                for a in n.names:
                    out[(a.asname or a.name).split(".")[0]] = a.name
        return out

    @staticmethod
    def _with_parents(fn, nodes):
        for x in ast.walk(fn):
            for ch in ast.iter_child_nodes(x):
                ch._parent = x
        return nodes

    @staticmethod
    def _drop_stmt(fn, stmt):
        for x in ast.walk(fn):
            for field in ("body", "orelse", "finalbody"):
                b = getattr(x, field, None)
                if isinstance(b, list) and any(y is stmt for y in b):
                    b[:] = [y for y in b if y is not stmt] or [ast.Pass()]

    def _thread_optional_returns(self, stmts):
        changed = False
        for s in stmts:
            for field in ("body", "orelse", "finalbody"):
                sub = getattr(s, field, None)
                if isinstance(sub, list) and sub and isinstance(sub[0], ast.stmt) and not isinstance(
                        s, (ast.FunctionDef, ast.AsyncFunctionDef, ast.ClassDef)):
                    changed = self._thread_optional_returns(sub) or changed
        i = 0
        while i + 1 < len(stmts):
            a, b = stmts[i], stmts[i + 1]
            x = None
            if isinstance(b, ast.If) and not b.orelse and len(b.body) == 1 and isinstance(b.body[0], ast.Return) \
                    and isinstance(b.body[0].value, ast.Name) and isinstance(b.test, ast.Compare) and len(b.test.ops) == 1 \
                    and isinstance(b.test.ops[0], ast.IsNot) and isinstance(b.test.left, ast.Name) \
                    and isinstance(b.test.comparators[0], ast.Constant) and b.test.comparators[0].value is None \
                    and b.test.left.id == b.body[0].value.id:
                x = b.test.left.id
            if x is None or not isinstance(a, ast.If):
                i += 1
                continue
            leaves = []

            def collect(node):
                for blk in (node.body, node.orelse):
                    if len(blk) == 1 and isinstance(blk[0], ast.If) and blk is node.orelse:
                        if not collect(blk[0]):
                            return False
                        continue
                    last = blk[-1] if blk else None
                    if not (isinstance(last, ast.Assign) and len(last.targets) == 1 and isinstance(last.targets[0], ast.Name)
                            and last.targets[0].id == x):
                        return False
                    v = last.value
                    built = isinstance(v, ast.Call) and isinstance(v.func, ast.Name) and v.func.id[:1].isupper()
                    none = isinstance(v, ast.Constant) and v.value is None
                    if not (built or none):
                        return False
                    leaves.append((blk, last, built))
                return True
            used_later = any(isinstance(n, ast.Name) and n.id == x for st in stmts[i + 2:] for n in ast.walk(st))
            if not collect(a) or used_later or not any(bt for _, _, bt in leaves):
                i += 1
                continue
            for blk, last, built in leaves:
                if built:
                    blk[-1] = ast.copy_location(ast.Return(value=last.value), last)
                else:
                    blk[:] = blk[:-1]
            # an `else:` left empty disappears; an emptied `if` body keeps a pass

            def tidy(node):
                if not node.body:
                    node.body = [ast.Pass()]
                if len(node.orelse) == 1 and isinstance(node.orelse[0], ast.If):
                    tidy(node.orelse[0])
            tidy(a)
            del stmts[i + 1]
            changed = True
            i += 1
        return changed

    def prepared(self, call, modname, cls, thin=False):
        r = self.resolve(call, modname, cls, thin)
        if r is None:
            return None
        h, is_method = r
        if not self.ok_helper(h):
            return None
        hc = cls
        if is_method:
            owner, _ = self.pm.find_method(cls, h.name)
            hc = owner
        self.canon_function(h, modname if not is_method else self.pm.classes[hc].module, hc if is_method else None)
        return h, is_method

    def block(self, stmts, modname, cls, fn):
        out = []
        for s in stmts:
            for field in ("body", "orelse", "finalbody"):
                sub = getattr(s, field, None)
                if isinstance(sub, list) and sub and isinstance(sub[0], ast.stmt) and not isinstance(
                        s, (ast.FunctionDef, ast.AsyncFunctionDef, ast.ClassDef)):
                    setattr(s, field, self.block(sub, modname, cls, fn))
            if isinstance(s, ast.Try):
                for hd in s.handlers:
                    hd.body = self.block(hd.body, modname, cls, fn)
            call, mode = None, None
            if isinstance(s, ast.Expr) and isinstance(s.value, ast.Call):
                call, mode = s.value, "expr"
            elif isinstance(s, ast.Return) and isinstance(s.value, ast.Call):
                call, mode = s.value, "return"
            elif isinstance(s, (ast.Assign, ast.AugAssign, ast.AnnAssign)) and isinstance(s.value, ast.Call):
                call, mode = s.value, "assign"
            new = None
            if call is not None:
                body_ = [b for b in fn.body if not (isinstance(b, ast.Expr) and isinstance(b.value, ast.Constant))]
                thin = len(body_) == 1 and body_[0] is s and mode in ("expr", "return") and stmts is fn.body
                p = self.prepared(call, modname, cls, thin)
                if p is not None:
                    try:
                        new = self.splice(s, call, mode, p[0], p[1], fn)
                    except NotInlinable as e:
                        self.stats["not_inlinable"].append(f"{p[0].name}: {e}")
            if new is None:
                out.append(s)
            else:
                self.stats["statement_inlines"] += 1
                self.inlined_into.setdefault(p[0].name, set()).add((f"{cls}." if cls else "") + fn.name)
                out += new
        return out

    def splice(self, s, call, mode, h, is_method, fn):
        tag = h.name.lstrip("_")
        mapping, pre = _bind(h, call, is_method, tag)
        # parameters substituted / locals renamed first, so that what on_return adds (the caller's targets) is untouched
        body = [substitute_stmt(clone(b), mapping) for b in h.body
                if not (isinstance(b, ast.Expr) and isinstance(b.value, ast.Constant) and isinstance(b.value.value, str))]
        if mode == "return":
            # `return helper(…)`: the helper's own returns are the caller's; a helper that falls off its end returns None
            # there — the caller must not continue with what follows the call
            stmts = body if body and isinstance(body[-1], (ast.Return, ast.Raise)) else body + [ast.Return(value=None)]
        else:
            if mode == "assign":
                def on_return(v):
                    v = v if v is not None else ast.Constant(value=None)
                    if isinstance(s, ast.Assign):
                        return [ast.Assign(targets=[clone(t) for t in s.targets], value=v)]
                    if isinstance(s, ast.AugAssign):
                        return [ast.AugAssign(target=clone(s.target), op=s.op, value=v)]
                    return [ast.AnnAssign(target=clone(s.target), annotation=s.annotation, value=v, simple=s.simple)]
            else:
                def on_return(v):
                    return [ast.Expr(value=v)] if v is not None and not isinstance(v, (ast.Constant, ast.Name)) else []
            stmts, _ = _single_exit(body + [ast.Return(value=None)], on_return)
        stmts = [_Simplify().visit(b) for b in stmts]
        return _relocate((pre + stmts) or [ast.Pass()], s)

    # -- expression level
    def expr_inline(self, fn, modname, cls):
        me = self

        class T(ast.NodeTransformer):
            def visit_Call(self, node):
                self.generic_visit(node)
                r = me.resolve(node, modname, cls)
                if r is None:
                    return node
                h, is_method = r
                if not me.ok_helper(h) or h is fn:
                    return node
                me.prepared(node, modname, cls)
                e = _single_return_expr(h)
                if e is None:
                    return node
                try:
                    mapping, pre = _bind(h, node, is_method, h.name.lstrip("_"))
                except NotInlinable:
                    return node
                if pre:
                    return node
                me.stats["expression_inlines"] += 1
                me.inlined_into.setdefault(h.name, set()).add((f"{cls}." if cls else "") + fn.name)
                new = substitute(e, mapping)
                _relocate([new], node)
                return new

            def visit_Attribute(self, node):
                self.generic_visit(node)
                if isinstance(node.ctx, ast.Load) and _is_private(node.attr) and isinstance(node.value, ast.Name) \
                        and node.value.id == "self" and cls is not None:
                    owner, h = me.pm.find_method(cls, node.attr)
                    if h is not None and "property" in _decorators(h) and h is not fn and id(h) not in me.busy:
                        for k in me.pm.subclasses(owner):
                            if k != owner and any(isinstance(x, ast.FunctionDef) and x.name == node.attr
                                                  for x in me.pm.classes[k].node.body):
                                return node
                        me.canon_function(h, me.pm.classes[owner].module, owner)
                        e = _single_return_expr(h)
                        if e is not None:
                            me.stats["expression_inlines"] += 1
                            new = clone(e)
                            _relocate([new], node)
                            return new
                return node

            def visit_FunctionDef(self, node):
                if node is fn:
                    self.generic_visit(node)
                return node
        T().visit(fn)

    # -- whole program
    # -- decorators of the package, applied
    def _decorator_parts(self, dnode):
        """(outer parameter bindings, wrapped-function parameter name, wrapper FunctionDef) for a decorator written in
        the package as `def deco(fn): [@wraps(fn)] def wrapper(...): ...; return wrapper`, or as a factory
        `def deco(a, b): def decorator(fn): <the above>; return decorator` used as `@deco(x, y)`; else None"""
        name = dnode.func.id if isinstance(dnode, ast.Call) and isinstance(dnode.func, ast.Name) else (
            dnode.id if isinstance(dnode, ast.Name) else None)
        if name is None:
            return None
        cands = [fs[name] for fs in self.module_funcs.values() if name in fs]
        if len(cands) != 1:
            return None
        d = cands[0]

        def simple(f):
            body = [b for b in f.body if not (isinstance(b, ast.Expr) and isinstance(b.value, ast.Constant))]
            # leading `name = <expression of the wrapped function's name>` (flow_name = fn.__name__): bound where applied
            pre = []
            while body and isinstance(body[0], ast.Assign) and len(body[0].targets) == 1 and isinstance(body[0].targets[0], ast.Name) \
                    and len(f.args.args) == 1 and all(
                        not (isinstance(x, ast.Name) and x.id == f.args.args[0].arg)
                        or (isinstance(getattr(x, "_p", None), ast.Attribute) and x._p.attr in ("__name__", "__qualname__"))
                        for x in self._mark_parents(body[0].value)):
                pre.append((body[0].targets[0].id, body[0].value))
                body = body[1:]
            if len(body) == 2 and isinstance(body[0], ast.FunctionDef) and isinstance(body[1], ast.Return) \
                    and len(f.args.args) == 1:
                rv = body[1].value
                as_property = isinstance(rv, ast.Call) and isinstance(rv.func, ast.Name) and rv.func.id == "property" \
                    and len(rv.args) == 1 and not rv.keywords
                if as_property:
                    rv = rv.args[0]
                w = body[0]
                if isinstance(rv, ast.Name) and rv.id == w.name and all(
                        isinstance(x, ast.Call) and norm_name(x.func) in ("wraps", "functools.wraps") for x in w.decorator_list):
                    w._efa_pre, w._efa_property = pre, as_property
                    return f.args.args[0].arg, w
            return None
        if isinstance(dnode, ast.Name):
            r = simple(d)
            return ({}, r[0], r[1]) if r else None
        body = [b for b in d.body if not (isinstance(b, ast.Expr) and isinstance(b.value, ast.Constant))]
        if len(body) == 2 and isinstance(body[0], ast.FunctionDef) and isinstance(body[1], ast.Return) \
                and isinstance(body[1].value, ast.Name) and body[1].value.id == body[0].name:
            r = simple(body[0])
            if r is None:
                return None
            ps = [a.arg for a in d.args.args]
            bind = {}
            for i, a in enumerate(dnode.args):
                if i < len(ps):
                    bind[ps[i]] = a
            for k in dnode.keywords:
                if k.arg:
                    bind[k.arg] = k.value
            if set(bind) != set(ps) or not all(isinstance(v, ast.Constant) for v in bind.values()):
                return None
            return bind, r[0], r[1]
        return None

    @staticmethod
    def _mark_parents(expr):
        out = []
        for n in ast.walk(expr):
            for ch in ast.iter_child_nodes(n):
                ch._p = n
            out.append(n)
        return out

    def apply_decorators(self):
        """a method decorated with a simple decorator of the package reads as the decorator's wrapper, the original body
        becoming a private helper `_<name>__undecorated` that the wrapper calls (and that the inlining below splices back
        in): `@without_duplicates def f(self): return xs` is `def f(self): return list(set(xs))`"""
        from .astutil import fold_static
        n_applied = 0
        for m, (rel, tree, _) in self.pm.modules.items():
            for cls in [c for c in tree.body if isinstance(c, ast.ClassDef)]:
                added = []
                for f in [x for x in cls.body if isinstance(x, ast.FunctionDef)]:
                    while f.decorator_list:
                        dn = f.decorator_list[-1]        # the innermost decorator is applied first
                        if norm_name(dn) in ("property", "staticmethod", "classmethod", "abstractmethod") \
                                or norm_name(getattr(dn, "func", dn)).endswith((".setter", ".getter")):
                            break
                        parts = self._decorator_parts(dn)
                        if parts is None:
                            break
                        bind, fparam, w = parts
                        wps = [a.arg for a in w.args.args]
                        fps = [a.arg for a in f.args.args]
                        if len(wps) != len(fps) or w.args.vararg or w.args.kwarg or f.args.vararg or f.args.kwarg:
                            break
                        hname = f"_{f.name.lstrip('_')}__undecorated"
                        helper = ast.FunctionDef(name=hname, args=f.args, body=f.body, decorator_list=[], returns=None,
                                                 type_comment=None, lineno=f.lineno, col_offset=f.col_offset)
                        if hasattr(f, "type_params"):
                            helper.type_params = []

                        class T(ast.NodeTransformer):
                            ok = True

                            def visit_Call(self, node):
                                if isinstance(node.func, ast.Name) and node.func.id == fparam:
                                    if [norm_name(a) for a in node.args] != wps or node.keywords:
                                        T.ok = False
                                        return node
                                    return ast.copy_location(ast.Call(
                                        func=ast.Attribute(value=ast.Name(id=wps[0], ctx=ast.Load()), attr=hname, ctx=ast.Load()),
                                        args=node.args[1:], keywords=[]), node)
                                self.generic_visit(node)
                                return node

                            def visit_Name(self, node):
                                if node.id == fparam:
                                    T.ok = False
                                return node
                        mapping = {k: v for k, v in bind.items()}
                        for pn, pv in getattr(w, "_efa_pre", []):
                            class _NameOf(ast.NodeTransformer):
                                def visit_Attribute(self, a):
                                    if isinstance(a.value, ast.Name) and a.value.id == fparam and a.attr in ("__name__", "__qualname__"):
                                        return ast.Constant(value=f.name)
                                    self.generic_visit(a)
                                    return a
                            mapping[pn] = _NameOf().visit(clone(pv))
                        newbody = [T().visit(substitute_stmt(clone(b), mapping)) for b in w.body]
                        if not T.ok or wps[0] != fps[0]:
                            break
                        ren = {a: ast.Name(id=b, ctx=ast.Load()) for a, b in zip(wps, fps) if a != b}
                        if ren:
                            newbody = [substitute_stmt(b, ren) for b in newbody]
                        for b in newbody:
                            for x in ast.walk(b):
                                if hasattr(x, "lineno"):
                                    x.lineno = f.lineno
                        f.body = newbody
                        fold_static(f)
                        f.decorator_list = f.decorator_list[:-1]
                        if getattr(w, "_efa_property", False):
                            # `return property(wrapper)`: the decorated name is a property
                            f.decorator_list.append(ast.copy_location(ast.Name(id="property", ctx=ast.Load()), f))
                        added.append(helper)
                        n_applied += 1
                cls.body += added
        self.stats["decorators_applied"] = n_applied
        if n_applied:
            for m, (rel, tree, _) in self.pm.modules.items():
                for n in ast.walk(tree):
                    for ch in ast.iter_child_nodes(n):
                        ch._parent = n

    # -- context managers of the package, applied
    def _context_manager(self, call, cls):
        """(generator FunctionDef, is_method, receiver expr or None) for `with <call>:` when <call> is a call of a
        @contextmanager function / method of the package with exactly one top-level `yield` and no try; else None"""
        if not isinstance(call, ast.Call):
            return None
        f = call.func
        h, is_method, recv = None, False, None
        if isinstance(f, ast.Name):
            cands = [fs[f.id] for fs in self.module_funcs.values() if f.id in fs]
            h = cands[0] if len(cands) == 1 else None
        elif isinstance(f, ast.Attribute):
            recv, is_method = f.value, True
            if isinstance(recv, ast.Name) and recv.id == "self" and cls is not None:
                h = self.pm.find_method(cls, f.attr)[1]
            else:
                cands = [m for cn in self.pm.classes for m in self.pm.own_methods(cn) if m.name == f.attr
                         and "contextmanager" in {norm_name(d).split(".")[-1] for d in m.decorator_list}]
                h = cands[0] if len(cands) == 1 else None
        if h is None or "contextmanager" not in {norm_name(d).split(".")[-1] for d in h.decorator_list}:
            return None
        ys = [n for n in ast.walk(h) if isinstance(n, (ast.Yield, ast.YieldFrom))]
        tops = [b for b in h.body if isinstance(b, ast.Expr) and isinstance(b.value, ast.Yield)]
        if len(ys) != 1 or len(tops) != 1 or any(isinstance(n, (ast.Try, ast.Return)) for n in ast.walk(h)):
            return None
        return h, is_method, recv

    def apply_context_managers(self):
        """`with cm(args) [as v]: BODY` with cm a simple generator-based context manager of the package reads as
        <statements before the yield>; [v = <yielded value>]; BODY; <statements after the yield> — which is what runs
        (without try / finally in cm the part after the yield is skipped when BODY raises, exactly like straight code)"""
        n_applied = [0]
        me = self

        def rewrite(stmts, cls, tag_base):
            out = []
            for st in stmts:
                for field in ("body", "orelse", "finalbody"):
                    sub = getattr(st, field, None)
                    if isinstance(sub, list) and sub and isinstance(sub[0], ast.stmt) and not isinstance(
                            st, (ast.ClassDef,)):
                        setattr(st, field, rewrite(sub, cls, tag_base))
                if isinstance(st, ast.Try):
                    for hd in st.handlers:
                        hd.body = rewrite(hd.body, cls, tag_base)
                if isinstance(st, ast.With) and len(st.items) == 1:
                    cm = me._context_manager(st.items[0].context_expr, cls)
                    if cm is not None:
                        h, is_method, recv = cm
                        call = st.items[0].context_expr
                        ps = [a.arg for a in h.args.args]
                        mapping = {}
                        if is_method and ps:
                            if not _simple(recv):
                                out.append(st)
                                continue
                            mapping[ps[0]] = recv
                            ps = ps[1:]
                        ok = (len(call.args) <= len(ps) or h.args.vararg is not None) and not h.args.kwarg \
                            and not any(isinstance(a, ast.Starred) for a in call.args)
                        for p_, a in zip(ps, call.args):
                            mapping[p_] = a
                        if h.args.vararg is not None:
                            # *args of the context manager: the tuple of the remaining arguments
                            mapping[h.args.vararg.arg] = ast.Tuple(elts=list(call.args[len(ps):]), ctx=ast.Load())
                        for k in call.keywords:
                            if k.arg in ps:
                                mapping[k.arg] = k.value
                            else:
                                ok = False
                        dflt = dict(zip([a.arg for a in h.args.args][len(h.args.args) - len(h.args.defaults):], h.args.defaults))
                        for p_ in ps:
                            if p_ not in mapping:
                                if p_ in dflt:
                                    mapping[p_] = dflt[p_]
                                else:
                                    ok = False
                        def _pure_callable(v):
                            # a function object built on the spot from plain parts: methodcaller("append", value), a lambda
                            return isinstance(v, ast.Lambda) or (
                                isinstance(v, ast.Call) and norm_name(v.func).split(".")[-1] in ("methodcaller", "attrgetter", "itemgetter", "partial")
                                and all(_simple(a_) for a_ in v.args) and all(k_.arg and _simple(k_.value) for k_ in v.keywords))
                        if not ok or not all(_simple(v) or _pure_callable(v) or (isinstance(v, ast.Tuple) and all(_simple(x) for x in v.elts))
                                             for v in mapping.values()):
                            out.append(st)
                            continue
                        tag = f"{h.name.lstrip('_')}"
                        stored = {x.id for x in ast.walk(h) if isinstance(x, ast.Name) and isinstance(x.ctx, ast.Store)}
                        for nm in stored:
                            if nm not in mapping:
                                mapping[nm] = ast.Name(id=f"{nm}__{tag}", ctx=ast.Load())
                        body = [b for b in h.body if not (isinstance(b, ast.Expr) and isinstance(b.value, ast.Constant))]
                        yi = next(i for i, b in enumerate(body) if isinstance(b, ast.Expr) and isinstance(b.value, ast.Yield))
                        pre = [substitute_stmt(clone(b), mapping) for b in body[:yi]]
                        post = [substitute_stmt(clone(b), mapping) for b in body[yi + 1:]]
                        if h.args.vararg is not None:
                            # `getattr(x, "append")(*(v,))` left by the substitution reads as x.append(v)
                            from .astutil import fold_static as _fold_cm
                            holder = ast.Module(body=pre + post, type_ignores=[])
                            _fold_cm(holder)
                            pre, post = holder.body[:len(pre)], holder.body[len(pre):]
                        mid = []
                        if st.items[0].optional_vars is not None:
                            yv = body[yi].value.value
                            yv = substitute(yv, mapping) if yv is not None else ast.Constant(value=None)
                            mid = [ast.Assign(targets=[clone(st.items[0].optional_vars)], value=yv)]
                        new = pre + mid + list(st.body) + post
                        for b in pre + mid + post:
                            for x in ast.walk(b):
                                if hasattr(x, "lineno") or isinstance(x, (ast.stmt, ast.expr)):
                                    x.lineno = st.lineno
                                    x.col_offset = getattr(st, "col_offset", 0)
                        # statements after the body sit after its last line
                        last = max([getattr(x, "lineno", st.lineno) for b in st.body for x in ast.walk(b)] + [st.lineno])
                        for b in post:
                            for x in ast.walk(b):
                                if hasattr(x, "lineno"):
                                    x.lineno = last + 1e-3
                        out += new
                        n_applied[0] += 1
                        continue
                out.append(st)
            return out
        for m, (rel, tree, _) in self.pm.modules.items():
            for s_ in tree.body:
                if isinstance(s_, ast.FunctionDef):
                    s_.body = rewrite(s_.body, None, s_.name)
                elif isinstance(s_, ast.ClassDef):
                    for f in s_.body:
                        if isinstance(f, ast.FunctionDef):
                            f.body = rewrite(f.body, s_.name, f.name)
        self.stats["context_managers_applied"] = n_applied[0]
        if n_applied[0]:
            for m, (rel, tree, _) in self.pm.modules.items():
                for n in ast.walk(tree):
                    for ch in ast.iter_child_nodes(n):
                        ch._parent = n

    def inline_conversion_wrappers(self):
        """a module-level function `f(x)` that returns `x` when x is empty or already in unit U and `x.to(U)` otherwise
        is x.to(U) (to() converts in place and returns its receiver; on an empty object and on a value already in U it
        changes nothing): calls f(e) read as e.to(U) everywhere in the package"""
        pm = self.pm
        wrappers = {}
        for m, (rel, tree, _) in pm.modules.items():
            for f in tree.body:
                if not (isinstance(f, ast.FunctionDef) and len(f.args.args) == 1 and not f.args.vararg and not f.args.kwarg
                        and not f.args.kwonlyargs and not f.decorator_list):
                    continue
                p_ = f.args.args[0].arg
                body = [b for b in f.body if not (isinstance(b, ast.Expr) and isinstance(b.value, ast.Constant))]
                if not (len(body) == 2 and isinstance(body[0], ast.If) and not body[0].orelse and len(body[0].body) == 1
                        and isinstance(body[0].body[0], ast.Return) and isinstance(body[0].body[0].value, ast.Name)
                        and body[0].body[0].value.id == p_ and isinstance(body[1], ast.Return)):
                    continue
                r = body[1].value
                if not (isinstance(r, ast.Call) and isinstance(r.func, ast.Attribute) and r.func.attr == "to"
                        and isinstance(r.func.value, ast.Name) and r.func.value.id == p_ and len(r.args) == 1 and not r.keywords):
                    continue
                U = norm_name(r.args[0]) if isinstance(r.args[0], (ast.Name, ast.Attribute)) else None
                if U is None:
                    continue
                t = body[0].test
                atoms = t.values if isinstance(t, ast.BoolOp) and isinstance(t.op, ast.Or) else [t]

                def harmless(a):
                    if isinstance(a, ast.Call) and isinstance(a.func, ast.Name) and a.func.id == "isinstance" and len(a.args) == 2 \
                            and isinstance(a.args[0], ast.Name) and a.args[0].id == p_ \
                            and isinstance(a.args[1], ast.Name) and a.args[1].id == "EmptyExplainableObject":
                        return True
                    if isinstance(a, ast.Compare) and len(a.ops) == 1 and isinstance(a.ops[0], ast.Eq):
                        l, r_ = a.left, a.comparators[0]
                        for x, y in ((l, r_), (r_, l)):
                            if isinstance(y, (ast.Name, ast.Attribute)) and norm_name(y) == U and isinstance(x, ast.Attribute) \
                                    and ast.unparse(x) in (f"{p_}.unit", f"{p_}.value.units", f"{p_}.units"):
                                return True
                    return False
                if all(harmless(a) for a in atoms):
                    wrappers[f.name] = r.args[0]
        if not wrappers:
            return
        n = [0]

        class W(ast.NodeTransformer):
            def visit_Call(self, node):
                self.generic_visit(node)
                if isinstance(node.func, ast.Name) and node.func.id in wrappers and len(node.args) == 1 and not node.keywords \
                        and not isinstance(node.args[0], ast.Starred):
                    n[0] += 1
                    return ast.copy_location(ast.Call(
                        func=ast.Attribute(value=node.args[0], attr="to", ctx=ast.Load()),
                        args=[clone(wrappers[node.func.id])], keywords=[]), node)
                return node
        for m, (rel, tree, _) in pm.modules.items():
            defined_here = {f.name for f in tree.body if isinstance(f, ast.FunctionDef)}
            imported = {a.asname or a.name for st in tree.body if isinstance(st, ast.ImportFrom) for a in st.names}
            if (defined_here | imported) & set(wrappers):
                for st in tree.body:
                    if not (isinstance(st, ast.FunctionDef) and st.name in wrappers):
                        W().visit(st)
                ast.fix_missing_locations(tree)
        self.stats["conversion_wrapper_calls"] = n[0]

    def inline_enum_member_methods(self):
        """`Enum.MEMBER.method(args)` of an Enum class of the package whose method is straight-line (single-assignment
        locals, one return) and reads of itself only `self.value` / `self.name`: the call reads as the returned expression,
        with the member's constant in place of self.value (and `getattr(math, "floor")(x)` folded to math.floor(x))"""
        from .astutil import straightline_value, fold_static
        pm = self.pm
        enums = {}
        for m, (rel, tree, _) in pm.modules.items():
            for c in tree.body:
                if isinstance(c, ast.ClassDef) and any(norm_name(b).split(".")[-1] in ("Enum", "IntEnum", "StrEnum")
                                                       for b in c.bases if isinstance(b, (ast.Name, ast.Attribute))):
                    members = {st.targets[0].id: st.value for st in c.body
                               if isinstance(st, ast.Assign) and len(st.targets) == 1 and isinstance(st.targets[0], ast.Name)
                               and isinstance(st.value, ast.Constant)}
                    meths = {}
                    for f in c.body:
                        if isinstance(f, ast.FunctionDef) and not f.decorator_list and f.args.args:
                            sn = f.args.args[0].arg
                            ok = True
                            for x in ast.walk(f):
                                if isinstance(x, ast.Name) and x.id == sn:
                                    par_ok = False
                                    for y in ast.walk(f):
                                        if isinstance(y, ast.Attribute) and y.value is x and y.attr in ("value", "name"):
                                            par_ok = True
                                    ok = ok and par_ok
                            if ok:
                                meths[f.name] = f
                    if members and meths:
                        enums[c.name] = (members, meths)
        if not enums:
            return
        n = [0]

        class W(ast.NodeTransformer):
            def visit_Call(self, node):
                self.generic_visit(node)
                f = node.func
                if isinstance(f, ast.Attribute) and isinstance(f.value, ast.Attribute) and isinstance(f.value.value, ast.Name) \
                        and f.value.value.id in enums:
                    members, meths = enums[f.value.value.id]
                    if f.value.attr in members and f.attr in meths:
                        h = meths[f.attr]
                        sn = h.args.args[0].arg

                        class S(ast.NodeTransformer):
                            def visit_Attribute(self, a):
                                self.generic_visit(a)
                                if isinstance(a.value, ast.Name) and a.value.id == sn:
                                    return ast.Constant(value=members[f.value.attr].value if a.attr == "value" else f.value.attr)
                                return a
                        # (the member's constants first: the arguments may well mention the caller's own `self`)
                        h = S().visit(clone(h))
                        fake = ast.Call(func=ast.Name(id=h.name, ctx=ast.Load()), args=node.args, keywords=node.keywords)
                        v = straightline_value(fake, None, lambda nm: h if nm == h.name else None)
                        if v is None:
                            return node
                        v = clone(v)
                        wrap = ast.Expr(value=v)
                        wrap = fold_static(ast.Module(body=[wrap], type_ignores=[])).body[0]
                        n[0] += 1
                        out = ast.copy_location(wrap.value, node)
                        for x in ast.walk(out):
                            ast.copy_location(x, node)
                        return out
                return node
        for m, (rel, tree, _) in pm.modules.items():
            src_has = any(isinstance(x, ast.Name) and x.id in enums for x in ast.walk(tree))
            if src_has:
                for st in tree.body:
                    if not (isinstance(st, ast.ClassDef) and st.name in enums):
                        W().visit(st)
                ast.fix_missing_locations(tree)
        self.stats["enum_member_calls"] = n[0]

    def run(self):
        pm = self.pm
        self.inline_conversion_wrappers()
        self.inline_enum_member_methods()
        self.apply_decorators()
        self.apply_context_managers()
        for m, (rel, tree, _) in pm.modules.items():
            for s in tree.body:
                if isinstance(s, ast.FunctionDef):
                    self.canon_function(s, m, None)
                elif isinstance(s, ast.ClassDef):
                    for f in s.body:
                        if isinstance(f, ast.FunctionDef):
                            self.canon_function(f, m, s.name)
        # drop private helpers that are no longer referenced anywhere
        referenced = set()
        for m, (rel, tree, _) in pm.modules.items():
            for x in ast.walk(tree):
                if isinstance(x, ast.Name):
                    referenced.add(x.id)
                elif isinstance(x, ast.Attribute):
                    referenced.add(x.attr)
                elif isinstance(x, ast.Constant) and isinstance(x.value, str):
                    referenced.add(x.value)
        for m, (rel, tree, _) in pm.modules.items():
            for container in [tree] + [c for c in tree.body if isinstance(c, ast.ClassDef)]:
                keep = []
                for s in container.body:
                    # (a static method of a private value class is as private as the class)
                    in_private_class = isinstance(container, ast.ClassDef) and _is_private(container.name) \
                        and isinstance(s, ast.FunctionDef) and _decorators(s) == {"staticmethod"} and not s.name.startswith("__")
                    if isinstance(s, ast.FunctionDef) and (_is_private(s.name) or in_private_class) and s.name not in referenced \
                            and not (_decorators(s) - {"staticmethod", "classmethod", "property"}):
                        self.stats["helpers_dropped"] += 1
                        continue
                    keep.append(s)
                container.body = keep
        self.stats["inlined_into"] = {k: sorted(v) for k, v in self.inlined_into.items()}
        return self.stats
