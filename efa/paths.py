"""Path enumeration over a function body and a small propositional reasoner over its branch conditions.

Rules about *entry points and guards* ("every path that stores directly is taken only for calculated attributes or objects
under construction", "every path on which the name is not a wrapper field forwards to the wrapped object") are decided on
the set of paths, not on the shape of the if/elif/else ladder: an `else` turned into an early return, an inverted test, a
De Morgan respelling, a local alias or a literal moved to a constant leave the paths and their conditions unchanged.

Loops are opaque statements on a path (what they contain is found by walking the statement). Conditions are abstracted
to propositional atoms (normalised text after alias expansion); implication is decided by truth table, atoms being taken
as independent: that can only lose implications (a finding where a cleverer reasoner would see none), never invent one.
"""
import ast
import itertools

from .frontend import norm, AnalysisError
from .astutil import expanded

MAX_PATHS = 512


class Path:
    __slots__ = ("conds", "stmts", "end")

    def __init__(self, conds, stmts, end):
        self.conds, self.stmts, self.end = conds, stmts, end

    def calls(self):
        out = []
        for t, _ in self.conds:
            out += [n for n in ast.walk(t) if isinstance(n, ast.Call)]
        for s in self.stmts:
            out += [n for n in ast.walk(s) if isinstance(n, ast.Call)]
        return out


def enumerate_paths(fn, relevant=None):
    """all paths through fn.body: Path(conds=[(test, polarity)], stmts=[simple statements in order], end).
    With `relevant` (predicate on AST nodes), an `if` that contains neither a relevant node nor a return / continue /
    break is kept as one opaque statement (its raising arms only remove executions): the rule's events and the
    conditions they sit under are unchanged, and the number of paths stays small."""
    count = [0]

    def opaque(s):
        if relevant is None:
            return False
        for n in ast.walk(s):
            if isinstance(n, (ast.Return, ast.Continue, ast.Break)) or relevant(n):
                return False
        return True

    def walk(stmts, conds, acc):
        for i, s in enumerate(stmts):
            if isinstance(s, ast.If) and not opaque(s):
                res = []
                for branch, pol in ((s.body, True), (s.orelse, False)):
                    for c2, a2, end in walk(branch, conds + [(s.test, pol)], acc):
                        if end == "fall":
                            res += walk(stmts[i + 1:], c2, a2)
                        else:
                            res.append((c2, a2, end))
                count[0] += len(res)
                if count[0] > 50 * MAX_PATHS or len(res) > MAX_PATHS:
                    raise AnalysisError(f"{getattr(fn, 'name', '?')}: more than {MAX_PATHS} paths")
                return res
            if isinstance(s, ast.Return):
                return [(conds, acc + [s], "return")]
            if isinstance(s, ast.Raise):
                return [(conds, acc + [s], "raise")]
            if isinstance(s, (ast.Continue, ast.Break)):
                return [(conds, acc + [s], type(s).__name__.lower())]
            acc = acc + [s]
        return [(conds, acc, "fall")]

    return [Path(c, a, e) for c, a, e in walk(fn.body, [], [])]


# ------------------------------------------------------------------------------------------------ formulas
def _atom(text):
    return ("atom", text)


def formula(e, fn=None):
    """propositional abstraction of a test expression"""
    F = lambda x: formula(x, fn)
    N = (lambda x: norm(expanded(x, fn))) if fn is not None else norm
    if isinstance(e, ast.BoolOp):
        return ("and" if isinstance(e.op, ast.And) else "or", [F(v) for v in e.values])
    if isinstance(e, ast.UnaryOp) and isinstance(e.op, ast.Not):
        return ("not", F(e.operand))
    if isinstance(e, ast.Constant) and isinstance(e.value, bool):
        return ("const", e.value)
    if isinstance(e, ast.Compare) and len(e.ops) == 1:
        op, l, r = e.ops[0], e.left, e.comparators[0]
        # membership in d.keys() is membership in d
        if isinstance(op, (ast.In, ast.NotIn)) and isinstance(r, ast.Call) and isinstance(r.func, ast.Attribute) \
                and r.func.attr == "keys" and not r.args:
            r = r.func.value
        if isinstance(op, (ast.In, ast.NotIn)) and isinstance(r, (ast.List, ast.Tuple, ast.Set)):
            r = ast.Tuple(elts=sorted(r.elts, key=norm), ctx=ast.Load())
        neg = {ast.NotIn: "in", ast.IsNot: "is", ast.NotEq: "=="}
        pos = {ast.In: "in", ast.Is: "is", ast.Eq: "=="}
        # emptiness: len(x) == 0 / len(x) > 0 / len(x) != 0 / len(x) >= 1  <->  truthiness of x
        if isinstance(l, ast.Call) and isinstance(l.func, ast.Name) and l.func.id == "len" and len(l.args) == 1 \
                and isinstance(r, ast.Constant) and isinstance(r.value, int):
            x = _atom("truthy " + N(l.args[0]))
            k = r.value
            if (isinstance(op, ast.Eq) and k == 0) or (isinstance(op, ast.Lt) and k == 1) or (isinstance(op, ast.LtE) and k == 0):
                return ("not", x)
            if (isinstance(op, ast.NotEq) and k == 0) or (isinstance(op, ast.Gt) and k == 0) or (isinstance(op, ast.GtE) and k == 1):
                return x
        # mirrored comparisons
        mirror = {ast.Lt: ast.Gt, ast.Gt: ast.Lt, ast.LtE: ast.GtE, ast.GtE: ast.LtE}
        if type(op) in mirror and N(l) > N(r):
            l, r, op = r, l, mirror[type(op)]()
        if type(op) in (ast.Eq, ast.NotEq, ast.Is, ast.IsNot) and N(l) > N(r):
            l, r = r, l
        if type(op) in neg:
            return ("not", _atom(f"{N(l)} {neg[type(op)]} {N(r)}"))
        if type(op) in pos:
            return _atom(f"{N(l)} {pos[type(op)]} {N(r)}")
        # a >= b  <->  not (a < b)
        if isinstance(op, ast.GtE):
            return ("not", _atom(f"{N(l)} < {N(r)}"))
        if isinstance(op, ast.LtE):
            return ("not", _atom(f"{N(r)} < {N(l)}"))
        if isinstance(op, ast.Gt):
            return _atom(f"{N(r)} < {N(l)}")
        return _atom(f"{N(l)} < {N(r)}")
    if isinstance(e, ast.Call) and isinstance(e.func, ast.Name) and e.func.id == "isinstance" and len(e.args) == 2:
        if isinstance(e.args[1], ast.Tuple):
            return ("or", [_atom(f"isinstance({N(e.args[0])}, {N(t)})") for t in e.args[1].elts])
        return _atom(f"isinstance({N(e.args[0])}, {N(e.args[1])})")
    if isinstance(e, ast.Call) and isinstance(e.func, ast.Name) and e.func.id == "bool" and len(e.args) == 1:
        return F(e.args[0])
    return _atom("truthy " + N(e))


def atoms_of(f, acc=None):
    acc = set() if acc is None else acc
    if f[0] == "atom":
        acc.add(f[1])
    elif f[0] == "not":
        atoms_of(f[1], acc)
    elif f[0] in ("and", "or"):
        for x in f[1]:
            atoms_of(x, acc)
    return acc


def evaluate(f, env):
    k = f[0]
    if k == "atom":
        return env[f[1]]
    if k == "const":
        return f[1]
    if k == "not":
        return not evaluate(f[1], env)
    if k == "and":
        return all(evaluate(x, env) for x in f[1])
    return any(evaluate(x, env) for x in f[1])


def conj(fs):
    return ("and", list(fs))


def path_formula(conds, fn=None):
    return conj([formula(t, fn) if pol else ("not", formula(t, fn)) for t, pol in conds])


def _models(fs):
    atoms = sorted(set().union(*[atoms_of(f) for f in fs])) if fs else []
    if len(atoms) > 14:
        raise AnalysisError(f"too many atoms in a guard ({len(atoms)})")
    for vals in itertools.product((False, True), repeat=len(atoms)):
        yield dict(zip(atoms, vals))


def implies(premise, goal):
    """premise |= goal over independent atoms"""
    return all(evaluate(goal, m) for m in _models([premise, goal]) if evaluate(premise, m))


def consistent(*fs):
    return any(all(evaluate(f, m) for f in fs) for m in _models(list(fs)))


def parse(text, fn=None):
    """formula of a test written as Python source (for the goals stated by rules)"""
    return formula(ast.parse(text, mode="eval").body, fn)
