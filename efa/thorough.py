"""Thorough tier: (1) cross-validate the front end against reflection (import-time code of efootprint only; a check of
the tool, never of a property); (2) run the self-test variants that target the property's rules."""
import json
import os
import subprocess
import sys

from .frontend import REPO

REFLECT = r'''
import json, sys, importlib, inspect, warnings, logging
warnings.filterwarnings("ignore")
out = {"classes": {}, "failed_modules": {}}
mods = sys.argv[1:]
for m in mods:
    try:
        mod = importlib.import_module(m)
    except BaseException as e:
        out["failed_modules"][m] = type(e).__name__ + ": " + str(e)[:100]
        continue
    for name, cls in vars(mod).items():
        if not inspect.isclass(cls) or cls.__module__ != m:
            continue
        mro = [k.__name__ for k in cls.__mro__ if k is not object]
        if "ModelingObject" not in mro:
            continue
        rec = {"mro": mro}
        try:
            obj = cls.__new__(cls)
            rec["calc"] = list(type(obj).calculated_attributes.fget(obj))
        except BaseException as e:
            rec["calc_error"] = str(e)[:80]
        try:
            sig = inspect.signature(cls.__init__)
            rec["params"] = [p for p in sig.parameters if p != "self"]
        except BaseException as e:
            rec["params_error"] = str(e)[:80]
        try:
            dv = cls.default_values()
            rec["defaults"] = sorted(dv.keys()) if isinstance(dv, dict) else None
        except BaseException as e:
            rec["defaults"] = None
        out["classes"][name] = rec
try:
    from efootprint.core.all_classes_in_order import ALL_EFOOTPRINT_CLASSES, CANONICAL_COMPUTATION_ORDER
    out["ALL"] = [c.__name__ for c in ALL_EFOOTPRINT_CLASSES]
    out["ORDER"] = [c.__name__ for c in CANONICAL_COMPUTATION_ORDER]
except BaseException as e:
    out["lists_error"] = type(e).__name__ + ": " + str(e)[:100]
print("REFLECT-JSON" + json.dumps(out))
'''


def cross_validate(E):
    """returns (errors, summary)"""
    pm = E.pm
    mods = sorted(m for m, (rel, tree, src) in pm.modules.items()
                  if any(isinstance(n, __import__("ast").ClassDef) for n in tree.body))
    env = dict(os.environ, PYTHONPATH=pm.repo, PYTHONWARNINGS="ignore")
    try:
        p = subprocess.run(["/venv/bin/python", "-c", REFLECT] + mods, capture_output=True, text=True, timeout=300,
                           env=env, cwd="/tmp")
    except Exception as e:
        return [f"front-end cross-validation could not run: {e}"], {}
    line = next((l for l in p.stdout.splitlines() if l.startswith("REFLECT-JSON")), None)
    if line is None:
        return [f"front-end cross-validation produced no result (exit {p.returncode}): {p.stderr[-300:]}"], {}
    R = json.loads(line[len("REFLECT-JSON"):])
    errors = []
    compared = 0
    for name, rec in sorted(R["classes"].items()):
        if name not in pm.classes:
            continue
        compared += 1
        static_mro = [k for k in pm.mro(name)]
        dyn_mro = [k for k in rec["mro"] if k in pm.classes]
        if static_mro != dyn_mro:
            errors.append(f"front end misreads the MRO of {name}: static {static_mro} vs reflection {dyn_mro}")
        if "calc" in rec:
            try:
                if pm.calc(name) != rec["calc"]:
                    errors.append(f"front end misreads {name}.calculated_attributes: {pm.calc(name)} vs {rec['calc']}")
            except Exception as e:
                errors.append(f"front end cannot evaluate {name}.calculated_attributes: {e}")
        if "params" in rec:
            sp = list(pm.ctor_params(name))
            if sp != [p for p in rec["params"]]:
                errors.append(f"front end misreads the constructor of {name}: {sp} vs {rec['params']}")
    if "ALL" in R:
        if R["ALL"] != pm.ALL or R["ORDER"] != pm.ORDER:
            errors.append("front end misreads ALL_EFOOTPRINT_CLASSES / CANONICAL_COMPUTATION_ORDER")
    summary = {"classes_compared_with_reflection": compared,
               "modules_not_importable_here": R["failed_modules"],
               "public_lists_compared": "ALL" in R, "lists_error": R.get("lists_error")}
    return errors, summary


_CACHE = {}


def run(E, prop, rules):
    errors = []
    if "xval" not in _CACHE:
        _CACHE["xval"] = cross_validate(E)
    errs, summary = _CACHE["xval"]
    errors += errs
    from . import selftest
    names = {r.split(":")[0] for r in rules}
    out = selftest.run_all(rules=names, verbose=False)
    for name, status, detail in out:
        if status == "FAIL":
            errors.append(f"self-test variant failed: {name}: {detail[:200]}")
    E.thorough_summary = {"front_end_cross_validation": summary,
                          "selftest": {"variants": len(out), "ok": sum(1 for _, s, _ in out if s == "ok"),
                                       "skipped": sum(1 for _, s, _ in out if s == "skip"),
                                       "failed": sum(1 for _, s, _ in out if s == "FAIL"),
                                       "names": [n for n, s, _ in out][:60]}}
    return errors
