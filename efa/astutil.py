"""Small AST utilities shared by the syntax-directed rules: alias expansion, name substitution, one-level inlining of
private helper methods, path conditions (with early-exit guards). They exist so that behaviour-preserving refactorings
(a local alias, an extracted helper, `if not ok: continue` instead of `if ok: ...`) do not change a rule's verdict."""
import ast
import copy

from .frontend import norm


def clone(node):
    """deep copy of an AST following fields only (never the `_parent` back pointers, which would drag in the module)"""
    if isinstance(node, list):
        return [clone(x) for x in node]
    if not isinstance(node, ast.AST):
        return node
    new = node.__class__()
    for f in node._fields:
        if hasattr(node, f):
            setattr(new, f, clone(getattr(node, f)))
    for a in ("lineno", "col_offset", "end_lineno", "end_col_offset"):
        if hasattr(node, a):
            setattr(new, a, getattr(node, a))
    if hasattr(node, "_origin"):
        new._origin = node._origin      # (by reference: the node of the program this copy stands for)
    return new


def clone_with_origin(node):
    """clone in which every node remembers, in `_origin`, the node it was copied from (or that node's own origin): views
    built from such a copy can be traced back to the nodes of the program"""
    if isinstance(node, list):
        return [clone_with_origin(x) for x in node]
    if not isinstance(node, ast.AST):
        return node
    new = node.__class__()
    for f in node._fields:
        if hasattr(node, f):
            setattr(new, f, clone_with_origin(getattr(node, f)))
    for a in ("lineno", "col_offset", "end_lineno", "end_col_offset"):
        if hasattr(node, a):
            setattr(new, a, getattr(node, a))
    new._origin = getattr(node, "_origin", node)
    return new


def substitute(expr, mapping):
    """copy of expr with every Name in `mapping` replaced by (a copy of) its expression"""
    class Sub(ast.NodeTransformer):
        def visit_Name(self, n):
            if n.id in mapping and isinstance(n.ctx, ast.Load):
                return ast.copy_location(clone(mapping[n.id]), n)
            if n.id in mapping and isinstance(n.ctx, ast.Store) and isinstance(mapping[n.id], ast.Name):
                # a comprehension target renamed together with its uses
                return ast.copy_location(ast.Name(id=mapping[n.id].id, ctx=ast.Store()), n)
            return n
    return Sub().visit(clone(expr))


def _is_simple_alias(e):
    """attribute chains, names, len(<simple>), subscripts with constant index: safe to substitute"""
    if isinstance(e, ast.Name):
        return True
    if isinstance(e, ast.Attribute):
        return _is_simple_alias(e.value)
    if isinstance(e, ast.Subscript):
        return _is_simple_alias(e.value) and isinstance(e.slice, (ast.Constant, ast.Name))
    if isinstance(e, ast.Call) and isinstance(e.func, ast.Name) and e.func.id == "len" and len(e.args) == 1:
        return _is_simple_alias(e.args[0])
    return False


def aliases(fn):
    """{local name: expression} for locals assigned exactly once from a simple alias expression"""
    count, val = {}, {}

    def bind(name, value):
        # (the same alias written on several branches — a helper spliced in twice — counts once)
        if name in val and norm_(val[name]) == norm_(value) and count.get(name, 0) >= 1:
            return
        count[name] = count.get(name, 0) + 1
        val[name] = value
    for n in ast.walk(fn):
        if isinstance(n, ast.Assign):
            for t in n.targets:
                if isinstance(t, ast.Name):
                    bind(t.id, n.value)
                elif isinstance(t, ast.Tuple) and isinstance(n.value, ast.Tuple) and len(t.elts) == len(n.value.elts):
                    for a, b in zip(t.elts, n.value.elts):
                        if isinstance(a, ast.Name):
                            bind(a.id, b)
        elif isinstance(n, (ast.AugAssign, ast.For, ast.comprehension)):
            tg = n.target
            for x in ast.walk(tg):
                if isinstance(x, ast.Name):
                    count[x.id] = count.get(x.id, 0) + 2
    params = {a.arg for a in fn.args.args}
    out = {k: v for k, v in val.items() if count.get(k) == 1 and k not in params and _is_simple_alias(v)}
    # resolve chains of aliases
    for _ in range(4):
        out = {k: substitute(v, {kk: vv for kk, vv in out.items() if kk != k}) for k, v in out.items()}
    return out


def expanded(expr, fn):
    """expr with the function's simple local aliases substituted"""
    return substitute(expr, aliases(fn))


def enorm(expr, fn):
    return norm(expanded(expr, fn))


def norm_(e):
    try:
        return ast.unparse(e)
    except Exception:
        return ""


def _split_starred_unpacking(tree):
    """`*head, last = (a, b, c)` (a literal tuple on the right) -> uses of `head` read `(a, b)` and uses of `last` read `c`;
    the unpacking statement disappears. Applied per function body; only for names bound once."""
    for fn in [n for n in ast.walk(tree) if isinstance(n, ast.FunctionDef)]:
        changed = True
        while changed:
            changed = False
            for i, st in enumerate(list(fn.body)):
                if isinstance(st, ast.Assign) and len(st.targets) == 1 and isinstance(st.targets[0], ast.Tuple) \
                        and isinstance(st.value, (ast.Tuple, ast.List)) \
                        and sum(isinstance(t, ast.Starred) for t in st.targets[0].elts) == 1 \
                        and all(isinstance(t.value if isinstance(t, ast.Starred) else t, ast.Name) for t in st.targets[0].elts):
                    tg, vals = st.targets[0].elts, list(st.value.elts)
                    k = next(j for j, t in enumerate(tg) if isinstance(t, ast.Starred))
                    after = len(tg) - k - 1
                    if len(vals) < len(tg) - 1:
                        continue
                    m = {}
                    for j in range(k):
                        m[tg[j].id] = vals[j]
                    m[tg[k].value.id] = ast.Tuple(elts=vals[k:len(vals) - after], ctx=ast.Load())
                    for j in range(after):
                        m[tg[k + 1 + j].id] = vals[len(vals) - after + j]
                    # the names must not be rebound elsewhere in the function
                    stores = [x.id for x in ast.walk(fn) if isinstance(x, ast.Name) and isinstance(x.ctx, ast.Store)]
                    params = {a.arg for a in fn.args.args}
                    if any(stores.count(nm) != 1 for nm in m) and not all(
                            isinstance(v, ast.Name) and v.id == nm for nm, v in m.items() if stores.count(nm) != 1 or nm in params):
                        continue
                    rest = fn.body[:i] + fn.body[i + 1:]
                    m2 = {nm: v for nm, v in m.items() if not (isinstance(v, ast.Name) and v.id == nm)}
                    fn.body = [substitute_stmt(b, m2) for b in rest]
                    changed = True
                    break
    return tree


_OP_CMP = {"ge": ast.GtE, "gt": ast.Gt, "le": ast.LtE, "lt": ast.Lt, "eq": ast.Eq, "ne": ast.NotEq}
_OP_BIN = {"add": ast.Add, "sub": ast.Sub, "mul": ast.Mult, "truediv": ast.Div}


def fold_static(tree, class_node=None):
    """in place: f-strings whose parts are all constants become the constant, `getattr(x, "name")` becomes `x.name`, a
    statement `setattr(x, "name", v)` becomes `x.name = v` — what remains of "the attribute called so-and-so" once a
    helper's parameters have been replaced by the constants its caller passes. With class_node: `self.TABLE[<constant>]`
    / `self.TABLE.get(<constant>)` of a class-level literal dict reads as the entry; a local bound once to
    `operator.<fn>` is replaced where it is called, and operator.ge(a, b) … read as `a >= b` …"""
    tables = {}
    if isinstance(class_node, ast.ClassDef):
        for st_ in class_node.body:
            if isinstance(st_, ast.Assign) and len(st_.targets) == 1 and isinstance(st_.targets[0], ast.Name) \
                    and isinstance(st_.value, ast.Dict) and all(isinstance(k_, ast.Constant) for k_ in st_.value.keys):
                tables[st_.targets[0].id] = st_.value

    def table_entry(tab, key):
        if isinstance(tab, ast.Attribute) and isinstance(tab.value, ast.Name) and tab.value.id in ("self", "cls") \
                and tab.attr in tables and isinstance(key, ast.Constant):
            d = tables[tab.attr]
            for k_, v_ in zip(d.keys, d.values):
                if k_.value == key.value:
                    return clone(v_)
        return None

    class Tables(ast.NodeTransformer):
        def visit_Subscript(self, node):
            self.generic_visit(node)
            if isinstance(node.ctx, ast.Load):
                v = table_entry(node.value, node.slice)
                if v is not None:
                    return ast.copy_location(v, node)
            return node

        def visit_Call(self, node):
            self.generic_visit(node)
            if isinstance(node.func, ast.Attribute) and node.func.attr == "get" and len(node.args) == 1 and not node.keywords:
                v = table_entry(node.func.value, node.args[0])
                if v is not None:
                    return ast.copy_location(v, node)
            return node
    if tables:
        tree = Tables().visit(tree)
        # callable locals: `test = operator.ge` bound once, used only as `test(…)`
        for fn_ in [x for x in ast.walk(tree) if isinstance(x, ast.FunctionDef)]:
            sa = single_assignments(fn_)
            for nm, v in list(sa.items()):
                if isinstance(v, ast.Attribute) and isinstance(v.value, ast.Name) and v.value.id == "operator" \
                        and (v.attr in _OP_CMP or v.attr in _OP_BIN):
                    uses = [x for x in ast.walk(fn_) if isinstance(x, ast.Name) and x.id == nm and isinstance(x.ctx, ast.Load)]
                    calls = [c for c in ast.walk(fn_) if isinstance(c, ast.Call) and isinstance(c.func, ast.Name) and c.func.id == nm]
                    if uses and len(uses) == len(calls):
                        for c in calls:
                            c.func = clone(v)

    class T(ast.NodeTransformer):
        def visit_JoinedStr(self, node):
            self.generic_visit(node)
            out = ""
            for v in node.values:
                if isinstance(v, ast.Constant):
                    out += str(v.value)
                elif isinstance(v, ast.FormattedValue) and isinstance(v.value, ast.Constant) and v.conversion == -1 \
                        and v.format_spec is None and isinstance(v.value.value, str):
                    out += v.value.value
                else:
                    return node
            return ast.copy_location(ast.Constant(value=out), node)

        def visit_Call(self, node):
            self.generic_visit(node)
            if isinstance(node.func, ast.Name) and node.func.id == "getattr" and len(node.args) == 2 and not node.keywords \
                    and isinstance(node.args[1], ast.Constant) and isinstance(node.args[1].value, str) \
                    and node.args[1].value.isidentifier():
                return ast.copy_location(ast.Attribute(value=node.args[0], attr=node.args[1].value, ctx=ast.Load()), node)
            # operator.ge(a, b) -> a >= b, operator.add(a, b) -> a + b
            if isinstance(node.func, ast.Attribute) and isinstance(node.func.value, ast.Name) and node.func.value.id == "operator" \
                    and len(node.args) == 2 and not node.keywords and not any(isinstance(a, ast.Starred) for a in node.args):
                if node.func.attr in _OP_CMP:
                    return ast.copy_location(ast.Compare(left=node.args[0], ops=[_OP_CMP[node.func.attr]()],
                                                         comparators=[node.args[1]]), node)
                if node.func.attr in _OP_BIN:
                    return ast.copy_location(ast.BinOp(left=node.args[0], op=_OP_BIN[node.func.attr](), right=node.args[1]), node)
            # partial(f, a, k=v)(b) -> f(a, b, k=v): a function bound in advance and applied on the spot
            if isinstance(node.func, ast.Call) and norm_(node.func.func) in ("partial", "functools.partial") and node.func.args \
                    and not any(isinstance(a, ast.Starred) for a in list(node.func.args) + list(node.args)) \
                    and all(k.arg is not None for k in list(node.func.keywords) + list(node.keywords)):
                inner = node.func
                return ast.copy_location(ast.Call(func=inner.args[0], args=list(inner.args[1:]) + list(node.args),
                                                  keywords=list(inner.keywords) + list(node.keywords)), node)
            # f(*(a, b), c) -> f(a, b, c)
            if any(isinstance(a, ast.Starred) and isinstance(a.value, (ast.Tuple, ast.List)) for a in node.args):
                args = []
                for a in node.args:
                    if isinstance(a, ast.Starred) and isinstance(a.value, (ast.Tuple, ast.List)):
                        args += list(a.value.elts)
                    else:
                        args.append(a)
                node.args = args
            # (lambda a, b: body)(x, y) -> body with a, b replaced: a function handed to a helper and applied there
            if isinstance(node.func, ast.Lambda) and not node.keywords and not any(isinstance(a, ast.Starred) for a in node.args) \
                    and len(node.args) == len(node.func.args.args) and not node.func.args.vararg and not node.func.args.kwarg \
                    and not node.func.args.kwonlyargs:
                return ast.copy_location(
                    substitute(node.func.body, {p.arg: a for p, a in zip(node.func.args.args, node.args)}), node)
            # list.append(x, v) -> x.append(v): the unbound method of a built-in container applied to its receiver
            if isinstance(node.func, ast.Attribute) and isinstance(node.func.value, ast.Name) \
                    and node.func.value.id in ("list", "dict", "set") and node.args and not node.func.attr.startswith("__") \
                    and not any(isinstance(a, ast.Starred) for a in node.args) \
                    and node.func.attr not in ("fromkeys",):
                return ast.copy_location(ast.Call(
                    func=ast.Attribute(value=node.args[0], attr=node.func.attr, ctx=ast.Load()), args=list(node.args[1:]),
                    keywords=list(node.keywords)), node)
            return node

        def visit_If(self, node):
            self.generic_visit(node)
            # `if None is not None:` / `if "a" == "b":` — a test between constants (a default that the caller leaves alone)
            # keeps one arm only
            t = node.test
            neg = False
            if isinstance(t, ast.UnaryOp) and isinstance(t.op, ast.Not):
                t, neg = t.operand, True
            val = None
            if isinstance(t, ast.Compare) and len(t.ops) == 1 and isinstance(t.left, ast.Constant) \
                    and isinstance(t.comparators[0], ast.Constant) \
                    and isinstance(t.ops[0], (ast.Is, ast.IsNot, ast.Eq, ast.NotEq)):
                a, b = t.left.value, t.comparators[0].value
                if isinstance(t.ops[0], (ast.Is, ast.IsNot)):
                    if a is None or b is None or isinstance(a, bool) or isinstance(b, bool):
                        val = (a is b) if isinstance(t.ops[0], ast.Is) else (a is not b)
                elif type(a) is type(b):
                    val = (a == b) if isinstance(t.ops[0], ast.Eq) else (a != b)
            if val is None:
                return node
            arm = node.body if (val != neg) else node.orelse
            return list(arm) if arm else ast.copy_location(ast.Pass(), node)

        def visit_Expr(self, node):
            self.generic_visit(node)
            c = node.value
            # methodcaller("m", a, b)(x) as a statement -> x.m(a, b)
            if isinstance(c, ast.Call) and isinstance(c.func, ast.Call) and norm_(c.func.func) in ("methodcaller", "operator.methodcaller") \
                    and c.func.args and isinstance(c.func.args[0], ast.Constant) and isinstance(c.func.args[0].value, str) \
                    and len(c.args) == 1 and not c.keywords:
                nm = c.func.args[0].value
                x = c.args[0]
                rest = list(c.func.args[1:])
                if nm == "__setitem__" and len(rest) == 2:
                    return ast.copy_location(ast.Assign(
                        targets=[ast.Subscript(value=x, slice=rest[0], ctx=ast.Store())], value=rest[1]), node)
                if nm == "__delitem__" and len(rest) == 1:
                    return ast.copy_location(ast.Delete(targets=[ast.Subscript(value=x, slice=rest[0], ctx=ast.Del())]), node)
                if nm == "__imul__" and len(rest) == 1 and isinstance(x, ast.Name):
                    return ast.copy_location(ast.AugAssign(target=ast.Name(id=x.id, ctx=ast.Store()), op=ast.Mult(), value=rest[0]), node)
                if nm.isidentifier() and not nm.startswith("__"):
                    node.value = ast.copy_location(ast.Call(
                        func=ast.Attribute(value=x, attr=nm, ctx=ast.Load()), args=rest, keywords=list(c.func.keywords)), c)
                    return node
            # x.__setitem__(i, v) / x.__delitem__(i) / x.__imul__(n) as statements (what `getattr(x, name)(*args)` leaves
            # once the name is known)
            if isinstance(c, ast.Call) and isinstance(c.func, ast.Attribute) and not c.keywords \
                    and not any(isinstance(a, ast.Starred) for a in c.args) \
                    and not (isinstance(c.func.value, ast.Call) and norm_(c.func.value.func) == "super"):
                x, nm, rest = c.func.value, c.func.attr, list(c.args)
                if nm == "__setitem__" and len(rest) == 2:
                    return ast.copy_location(ast.Assign(
                        targets=[ast.Subscript(value=x, slice=rest[0], ctx=ast.Store())], value=rest[1]), node)
                if nm == "__delitem__" and len(rest) == 1:
                    return ast.copy_location(ast.Delete(targets=[ast.Subscript(value=x, slice=rest[0], ctx=ast.Del())]), node)
                if nm == "__imul__" and len(rest) == 1 and isinstance(x, ast.Name):
                    return ast.copy_location(ast.AugAssign(target=ast.Name(id=x.id, ctx=ast.Store()), op=ast.Mult(), value=rest[0]), node)
            # x.__setattr__("name", v[, flag=…]) as a statement is the assignment x.name = v (the class's own __setattr__
            # runs either way; its optional flags only switch input checks off)
            if isinstance(c, ast.Call) and isinstance(c.func, ast.Attribute) and c.func.attr == "__setattr__" \
                    and isinstance(c.func.value, ast.Name) and len(c.args) == 2 and isinstance(c.args[0], ast.Constant) \
                    and isinstance(c.args[0].value, str) and c.args[0].value.isidentifier() \
                    and all(k.arg is not None and isinstance(k.value, ast.Constant) for k in c.keywords):
                tgt = ast.copy_location(ast.Attribute(value=c.func.value, attr=c.args[0].value, ctx=ast.Store()), node)
                return ast.copy_location(ast.Assign(targets=[tgt], value=c.args[1]), node)
            # operator.setitem(x, i, v) / operator.delitem(x, i) / operator.imul(x, n) as statements
            if isinstance(c, ast.Call) and norm_(c.func) in ("operator.setitem", "setitem") and len(c.args) == 3 and not c.keywords:
                return ast.copy_location(ast.Assign(
                    targets=[ast.Subscript(value=c.args[0], slice=c.args[1], ctx=ast.Store())], value=c.args[2]), node)
            if isinstance(c, ast.Call) and norm_(c.func) in ("operator.delitem", "delitem") and len(c.args) == 2 and not c.keywords:
                return ast.copy_location(ast.Delete(targets=[ast.Subscript(value=c.args[0], slice=c.args[1], ctx=ast.Del())]), node)
            if isinstance(c, ast.Call) and norm_(c.func) in ("operator.imul", "imul", "operator.iadd", "iadd") and len(c.args) == 2 \
                    and not c.keywords and isinstance(c.args[0], ast.Name):
                op = ast.Mult() if norm_(c.func).endswith("imul") else ast.Add()
                return ast.copy_location(ast.AugAssign(target=ast.Name(id=c.args[0].id, ctx=ast.Store()), op=op,
                                                       value=c.args[1]), node)
            if isinstance(c, ast.Call) and isinstance(c.func, ast.Name) and c.func.id == "setattr" and len(c.args) == 3 \
                    and not c.keywords and isinstance(c.args[1], ast.Constant) and isinstance(c.args[1].value, str) \
                    and c.args[1].value.isidentifier():
                tgt = ast.copy_location(ast.Attribute(value=c.args[0], attr=c.args[1].value, ctx=ast.Store()), node)
                return ast.copy_location(ast.Assign(targets=[tgt], value=c.args[2]), node)
            return node
    t = T().visit(tree)
    _split_starred_unpacking(t)
    t = T().visit(t)
    for n in ast.walk(t):
        if isinstance(n, ast.Assign):
            for tg in n.targets:
                if isinstance(tg, (ast.Attribute, ast.Subscript)) and not isinstance(tg.ctx, ast.Store):
                    tg.ctx = ast.Store()
    return t


def fold_constant_tests(fn):
    """in place; True if something changed. What inlining a general helper into a caller that passes constants leaves
    behind: `<lambda / literal> is not None` is True and `None is not None` False, `isinstance(x, ())` is False, `True and
    t` is t, `False and t` False (and the duals), `if True:` / `if False:` keep one arm, statements after a return that
    has become unconditional are dropped."""
    changed = [False]

    def truth(e):
        if isinstance(e, ast.Constant) and isinstance(e.value, bool):
            return e.value
        return None

    def never_none(e):
        return isinstance(e, (ast.Lambda, ast.Dict, ast.List, ast.Tuple, ast.Set, ast.JoinedStr, ast.ListComp, ast.DictComp)) \
            or (isinstance(e, ast.Constant) and e.value is not None)

    class T(ast.NodeTransformer):
        def visit_Compare(self, node):
            self.generic_visit(node)
            if len(node.ops) == 1 and isinstance(node.ops[0], (ast.Is, ast.IsNot)):
                l, r = node.left, node.comparators[0]
                for a, b in ((l, r), (r, l)):
                    if isinstance(b, ast.Constant) and b.value is None:
                        if never_none(a):
                            changed[0] = True
                            return ast.copy_location(ast.Constant(value=isinstance(node.ops[0], ast.IsNot)), node)
                        if isinstance(a, ast.Constant) and a.value is None:
                            changed[0] = True
                            return ast.copy_location(ast.Constant(value=isinstance(node.ops[0], ast.Is)), node)
            return node

        def visit_Call(self, node):
            self.generic_visit(node)
            if isinstance(node.func, ast.Name) and node.func.id == "isinstance" and len(node.args) == 2 and not node.keywords \
                    and isinstance(node.args[1], ast.Tuple) and not node.args[1].elts:
                changed[0] = True
                return ast.copy_location(ast.Constant(value=False), node)
            return node

        def visit_UnaryOp(self, node):
            self.generic_visit(node)
            if isinstance(node.op, ast.Not) and truth(node.operand) is not None:
                changed[0] = True
                return ast.copy_location(ast.Constant(value=not truth(node.operand)), node)
            return node

        def visit_BoolOp(self, node):
            self.generic_visit(node)
            is_and = isinstance(node.op, ast.And)
            keep = []
            for i, v in enumerate(node.values):
                t = truth(v)
                if t is None:
                    keep.append(v)
                    continue
                if t != is_and:
                    # False in an `and` / True in an `or`: decides the whole test when nothing before it has an effect
                    if not keep:
                        changed[0] = True
                        return ast.copy_location(ast.Constant(value=t), node)
                    keep.append(v)
                    break
                changed[0] = True      # True in an `and` / False in an `or`: neutral (as a test)
            if not keep:
                return ast.copy_location(ast.Constant(value=is_and), node)
            if len(keep) == 1:
                return keep[0]
            node.values = keep
            return node

    def only_tests(fn_):
        # BoolOp folding above reads the operands as tests (truthiness): applied to `if` / `while` tests only
        class Tests(ast.NodeTransformer):
            def visit_If(self, node):
                node.test = T().visit(node.test)
                self.generic_visit(node)
                return node

            def visit_IfExp(self, node):
                node.test = T().visit(node.test)
                self.generic_visit(node)
                return node
        Tests().visit(fn_)
    only_tests(fn)

    def prune(stmts):
        out = []
        for st in stmts:
            for fld in ("body", "orelse", "finalbody"):
                sub = getattr(st, fld, None)
                if isinstance(sub, list) and sub and isinstance(sub[0], ast.stmt) and not isinstance(
                        st, (ast.FunctionDef, ast.AsyncFunctionDef, ast.ClassDef)):
                    setattr(st, fld, prune(sub) or ([ast.copy_location(ast.Pass(), st)] if fld == "body" else []))
            if isinstance(st, ast.If) and truth(st.test) is not None:
                changed[0] = True
                out += st.body if truth(st.test) else st.orelse
            else:
                out.append(st)
            if out and isinstance(out[-1], (ast.Return, ast.Raise)) and st is not stmts[-1]:
                changed[0] = True
                break
        return [x for x in out if not (isinstance(x, ast.Pass) and len(out) > 1)]
    fn.body = prune(fn.body) or [ast.Pass()]

    class X(ast.NodeTransformer):
        def visit_IfExp(self, node):
            self.generic_visit(node)
            if truth(node.test) is not None:
                changed[0] = True
                return node.body if truth(node.test) else node.orelse
            return node
    X().visit(fn)
    return changed[0]


def unroll_literal_loops(fn, max_rows=4):
    """in place; number of loops written out. `for a, b in ((x, None), (y, self)):` — a loop with several loop variables over
    a literal tuple / list of at most `max_rows` rows (or over a local bound once to one), every row element plain (names, constants, attribute
    chains), no break / continue / else, loop variables not rebound in the body — reads as its body once per row, in order,
    with the row in place of the variables."""
    done = 0

    def plain(e):
        return isinstance(e, (ast.Name, ast.Constant)) or (isinstance(e, ast.Attribute) and plain(e.value))
    sa = single_assignments(fn)

    def rows_of(it):
        lit = it
        if isinstance(it, ast.Name) and isinstance(sa.get(it.id), (ast.Tuple, ast.List)):
            # (the table must not be used for anything else than this loop)
            uses = [x for x in ast.walk(fn) if isinstance(x, ast.Name) and x.id == it.id and isinstance(x.ctx, ast.Load)]
            if len(uses) != 1:
                return None
            lit = sa[it.id]
        if not isinstance(lit, (ast.Tuple, ast.List)) or not (1 <= len(lit.elts) <= max_rows):
            return None
        return lit.elts

    def visit(stmts):
        nonlocal done
        out = []
        for st in stmts:
            for fld in ("body", "orelse", "finalbody"):
                sub = getattr(st, fld, None)
                if isinstance(sub, list) and sub and isinstance(sub[0], ast.stmt) and not isinstance(st, (ast.FunctionDef, ast.ClassDef)):
                    setattr(st, fld, visit(sub))
            for h in getattr(st, "handlers", []) or []:
                h.body = visit(h.body)
            if isinstance(st, ast.For) and not st.orelse and not any(
                    isinstance(x, (ast.Break, ast.Continue, ast.Yield, ast.YieldFrom)) for x in ast.walk(st)):
                rows = rows_of(st.iter)
                tg = st.target
                # (rows of several columns only: `for p in (left, right):` is a loop the rules read as a loop)
                names = [e.id for e in tg.elts] if isinstance(tg, ast.Tuple) and len(tg.elts) >= 2 \
                    and all(isinstance(e, ast.Name) for e in tg.elts) else None
                # (rows of *objects to act on* — a loop variable is the receiver of a method call; tables of names and
                # constants that build a dict are read as tables by the rules that know them)
                acts = names is not None and any(
                    isinstance(c_, ast.Call) and isinstance(c_.func, ast.Attribute) and isinstance(c_.func.value, ast.Name)
                    and c_.func.value.id in names for b in st.body for c_ in ast.walk(b))
                if rows is not None and names is not None and acts and not any(
                        isinstance(x, ast.Name) and x.id in names and isinstance(x.ctx, ast.Store) for b in st.body for x in ast.walk(b)):
                    maps = []
                    for r in rows:
                        if isinstance(tg, ast.Name):
                            ok = plain(r)
                            m = {tg.id: r}
                        else:
                            ok = isinstance(r, (ast.Tuple, ast.List)) and len(r.elts) == len(names) and all(plain(e) for e in r.elts)
                            m = dict(zip(names, r.elts)) if ok else None
                        if not ok:
                            maps = None
                            break
                        maps.append(m)
                    if maps:
                        for m in maps:
                            for b in st.body:
                                nb = substitute_stmt(b, m)
                                for x in ast.walk(nb):
                                    if isinstance(x, (ast.expr, ast.stmt)):
                                        ast.copy_location(x, st)
                                out.append(nb)
                        done += 1
                        continue
            out.append(st)
        return out
    fn.body = visit(fn.body)
    if done:
        # a table that only fed the loop is gone with it
        for nm, v in sa.items():
            if isinstance(v, (ast.Tuple, ast.List)) and not any(isinstance(x, ast.Name) and x.id == nm and isinstance(x.ctx, ast.Load)
                                                               for x in ast.walk(fn)):
                for n in ast.walk(fn):
                    for fld in ("body", "orelse", "finalbody"):
                        blk = getattr(n, fld, None)
                        if isinstance(blk, list):
                            keep = [y for y in blk if not (isinstance(y, ast.Assign) and len(y.targets) == 1
                                                           and isinstance(y.targets[0], ast.Name) and y.targets[0].id == nm)]
                            if len(keep) != len(blk):
                                blk[:] = keep or [ast.Pass()]
        fold_constant_tests(fn)
        for n in ast.walk(fn):
            for ch in ast.iter_child_nodes(n):
                ch._parent = n
    return done


def inline_local_procedures(fn):
    """in place; number of calls written out. A nested `def g(a, b): <statements>` of fn that returns nothing, binds no
    local of its own, is not recursive and is only ever called as a statement `g(x, y)` of fn's own blocks: each call reads
    as g's statements, a constant argument in place of its parameter and any other argument evaluated once into a
    temporary (`set_input("ram", ram.set_label(…))` -> `_g1_value = ram.set_label(…)`; checks…; `self.ram = _g1_value`)."""
    done = 0
    for g in [b for b in fn.body if isinstance(b, ast.FunctionDef)]:
        if g.decorator_list or g.args.vararg or g.args.kwarg or g.args.kwonlyargs or g.args.defaults:
            continue
        inner = [x for b in g.body for x in ast.walk(b)]
        if any(isinstance(x, (ast.Yield, ast.YieldFrom, ast.Nonlocal, ast.Global, ast.FunctionDef, ast.Lambda)) for x in inner) \
                or any(isinstance(x, ast.Return) and x.value is not None for x in inner) \
                or any(isinstance(x, ast.Return) for x in inner) \
                or any(isinstance(x, ast.Name) and isinstance(x.ctx, ast.Store) for x in inner) \
                or any(isinstance(x, ast.Name) and x.id == g.name for x in inner):
            continue
        uses = [x for x in ast.walk(fn) if isinstance(x, ast.Name) and x.id == g.name and isinstance(x.ctx, ast.Load)]
        params = [a.arg for a in g.args.args]
        sites = []

        def scan(stmts):
            for i, st in enumerate(stmts):
                if isinstance(st, ast.Expr) and isinstance(st.value, ast.Call) and isinstance(st.value.func, ast.Name) \
                        and st.value.func.id == g.name:
                    sites.append((stmts, st))
                for fld in ("body", "orelse", "finalbody"):
                    sub = getattr(st, fld, None)
                    if isinstance(sub, list) and sub and isinstance(sub[0], ast.stmt) and not isinstance(st, (ast.FunctionDef, ast.ClassDef)):
                        scan(sub)
                for h in getattr(st, "handlers", []) or []:
                    scan(h.body)
        scan(fn.body)
        if not sites or len(sites) != len(uses):
            continue
        ok = all(len(st.value.args) + len(st.value.keywords) == len(params)
                 and not any(isinstance(a, ast.Starred) for a in st.value.args)
                 and all(k.arg in params for k in st.value.keywords) for _, st in sites)
        if not ok:
            continue
        # the closure must not read a local of fn that is rebound between its definition and a call … kept simple: the
        # free names it reads are bound once in fn (or are parameters of fn / globals)
        sa = single_assignments(fn)
        fparams = {a.arg for a in fn.args.args + fn.args.kwonlyargs}
        bound_in_fn = {x.id for x in ast.walk(fn) if isinstance(x, ast.Name) and isinstance(x.ctx, ast.Store)}
        free = {x.id for x in inner if isinstance(x, ast.Name) and isinstance(x.ctx, ast.Load) and x.id not in params}
        multi_tuple = {t_.id for n_ in ast.walk(fn) if isinstance(n_, ast.Assign) and len(n_.targets) == 1
                       and isinstance(n_.targets[0], ast.Tuple) for t_ in n_.targets[0].elts if isinstance(t_, ast.Name)}
        counts = {}
        for n_ in ast.walk(fn):
            if isinstance(n_, ast.Name) and isinstance(n_.ctx, ast.Store):
                counts[n_.id] = counts.get(n_.id, 0) + 1
        if any(nm in bound_in_fn and counts.get(nm, 0) != 1 for nm in free):
            continue
        for k_, (stmts, st) in enumerate(sites, 1):
            bind = {}
            for i, a in enumerate(st.value.args):
                bind[params[i]] = a
            for k in st.value.keywords:
                bind[k.arg] = k.value
            pre, m = [], {}
            for pn in params:
                a = bind[pn]
                if isinstance(a, (ast.Constant, ast.Name)):
                    m[pn] = a
                else:
                    tmp = f"_{g.name}{k_}_{pn}"
                    pre.append(ast.copy_location(ast.Assign(targets=[ast.Name(id=tmp, ctx=ast.Store())], value=a), st))
                    m[pn] = ast.Name(id=tmp, ctx=ast.Load())
            body = [substitute_stmt(b, m) for b in g.body if not (isinstance(b, ast.Expr) and isinstance(b.value, ast.Constant))]
            for b in body:
                for x in ast.walk(b):
                    if isinstance(x, (ast.expr, ast.stmt)):
                        ast.copy_location(x, st)
            idx = next(i for i, y in enumerate(stmts) if y is st)
            stmts[idx:idx + 1] = pre + body
            done += 1
        fn.body = [b for b in fn.body if b is not g] or [ast.Pass()]
    if done:
        fold_static(fn)
        for n in ast.walk(fn):
            for ch in ast.iter_child_nodes(n):
                ch._parent = n
    return done


def _guards_to_ifs(body):
    """helper body in which leading guards `if c: return` are rewritten as `if not c: <rest>` (so that it can be spliced
    into a caller); None if a bare `return` remains anywhere else"""
    out = []
    for i, b in enumerate(body):
        if isinstance(b, ast.If) and not b.orelse and len(b.body) == 1 and isinstance(b.body[0], ast.Return) \
                and b.body[0].value is None:
            rest = _guards_to_ifs(body[i + 1:])
            if rest is None:
                return None
            if rest:
                t = b.test.operand if isinstance(b.test, ast.UnaryOp) and isinstance(b.test.op, ast.Not) \
                    else ast.UnaryOp(op=ast.Not(), operand=b.test)
                out.append(ast.copy_location(ast.If(test=t, body=rest, orelse=[]), b))
            return out
        if isinstance(b, ast.Return) and b.value is None and i == len(body) - 1:
            return out
        if any(isinstance(x, ast.Return) for x in ast.walk(b)):
            return None
        out.append(b)
    return out


def inline_helpers(fn, find_method, max_body=12, only=None):
    """Copy of fn in which statement-level calls `self.<helper>(args)` (and `x = self.<helper>(args)` for helpers that
    are a single `return <expr>`) of small private helpers are replaced by the helper's body, parameters substituted.
    `find_method(name)` returns the helper's FunctionDef or None."""
    fn = clone(fn)

    def helper_of(call):
        if isinstance(call, ast.Call) and isinstance(call.func, ast.Attribute) and isinstance(call.func.value, ast.Name) \
                and call.func.value.id == "self":
            h = find_method(call.func.attr)
            if h is not None and h is not fn and h.name != fn.name and len(h.body) <= max_body \
                    and not any(isinstance(x, (ast.Yield, ast.YieldFrom)) for x in ast.walk(h)) \
                    and (only is None or any(only(x) for x in ast.walk(h))):
                return h
        return None

    def bind(h, call):
        ps = [a.arg for a in h.args.args]
        if not any(isinstance(d, ast.Name) and d.id == "staticmethod" for d in h.decorator_list):
            ps = ps[1:]
        m = {}
        for i, a in enumerate(call.args):
            if i < len(ps):
                m[ps[i]] = a
        if h.args.vararg is not None and not any(isinstance(a, ast.Starred) for a in call.args):
            m[h.args.vararg.arg] = ast.Tuple(elts=list(call.args[len(ps):]), ctx=ast.Load())
        for k in call.keywords:
            if k.arg:
                m[k.arg] = k.value
        return m

    def rewrite(stmts):
        out = []
        for s in stmts:
            for field in ("body", "orelse", "finalbody"):
                if hasattr(s, field) and isinstance(getattr(s, field), list):
                    setattr(s, field, rewrite(getattr(s, field)))
            if isinstance(s, ast.Try):
                for h in s.handlers:
                    h.body = rewrite(h.body)
            if isinstance(s, ast.Expr):
                h = helper_of(s.value)
                # called for its effects, the value dropped: a final `return <expr>` is just the evaluation of <expr>
                if h is not None and h.body and isinstance(h.body[-1], ast.Return) and h.body[-1].value is not None \
                        and sum(1 for x in ast.walk(h) if isinstance(x, ast.Return) and x.value is not None) == 1:
                    h = clone(h)
                    h.body[-1] = ast.copy_location(ast.Expr(value=h.body[-1].value), h.body[-1])
                if h is not None and not any(isinstance(x, ast.Return) and x.value is not None for x in ast.walk(h)):
                    m = bind(h, s.value)
                    body = [b for b in h.body if not (isinstance(b, ast.Expr) and isinstance(b.value, ast.Constant))]
                    body = _guards_to_ifs(body)
                    if body is None:
                        out.append(s)      # a bare `return` somewhere else than in a leading guard: not spliced
                        continue
                    for b in body:
                        nb = substitute_stmt(b, m)
                        ast.copy_location(nb, s)
                        for x in ast.walk(nb):
                            if hasattr(x, "lineno"):
                                x.lineno = s.lineno
                        out.append(nb)
                    continue
            if isinstance(s, ast.Assign) and len(s.targets) == 1:
                h = helper_of(s.value)
                body = [b for b in h.body if not (isinstance(b, ast.Expr) and isinstance(b.value, ast.Constant))] if h else []
                if h is not None and len(body) == 1 and isinstance(body[0], ast.Return) and body[0].value is not None:
                    s.value = substitute(body[0].value, bind(h, s.value))
            out.append(s)
        return out
    fn.body = rewrite(fn.body)
    fold_static(fn)
    for n in ast.walk(fn):
        for ch in ast.iter_child_nodes(n):
            ch._parent = n
    return fn


def inlined_view(fn, find_method, rounds=2, max_body=40, only=None):
    """fn with the same-class steps it calls as statements (`self.step(args)`, helpers that return nothing) spliced in,
    parameters replaced by the arguments — a method split into steps reads as the method it was. `only`: predicate on
    AST nodes; a helper is spliced in only if it contains such a node (what the rule is looking for)."""
    for _ in range(rounds):
        fn = inline_helpers(fn, find_method, max_body=max_body, only=only)
    return fn


def substitute_stmt(stmt, mapping):
    class Sub(ast.NodeTransformer):
        def visit_Name(self, n):
            if n.id in mapping:
                rep = clone(mapping[n.id])
                if isinstance(n.ctx, ast.Store):
                    if isinstance(rep, (ast.Name, ast.Attribute, ast.Subscript)):
                        rep.ctx = ast.Store()
                        return ast.copy_location(rep, n)
                    return n
                return ast.copy_location(rep, n)
            return n
    return Sub().visit(clone(stmt))


def inline_call_expr(call, find_method, find_function=None):
    """value of `self.<helper>(args)` (or of a package-level `helper(args)`) when the helper is a single
    `return <expr>`: that expr with params substituted"""
    if isinstance(call, ast.Call) and isinstance(call.func, ast.Name) and find_function is not None:
        h = find_function(call.func.id)
        if h is not None:
            body = [b for b in h.body if not (isinstance(b, ast.Expr) and isinstance(b.value, ast.Constant))]
            if len(body) == 1 and isinstance(body[0], ast.Return) and body[0].value is not None:
                return substitute(body[0].value, _bind_call(h, call))
        return None
    if isinstance(call, ast.Call) and isinstance(call.func, ast.Attribute) and isinstance(call.func.value, ast.Name) \
            and call.func.value.id == "self":
        h = find_method(call.func.attr)
        if h is None:
            return None
        body = [b for b in h.body if not (isinstance(b, ast.Expr) and isinstance(b.value, ast.Constant))]
        if len(body) == 1 and isinstance(body[0], ast.Return) and body[0].value is not None:
            ps = [a.arg for a in h.args.args][1:]
            m = {}
            for i, a in enumerate(call.args):
                if i < len(ps):
                    m[ps[i]] = a
            for k in call.keywords:
                if k.arg:
                    m[k.arg] = k.value
            return substitute(body[0].value, m)
    return None


def straightline_value(call, find_method=None, find_function=None):
    """value of a call to a helper whose body is single-assignment locals followed by one `return <expr>`: that
    expression with the locals expanded and the parameters replaced by the arguments (None when the helper has any
    other shape)"""
    if not isinstance(call, ast.Call):
        return None
    h = _helper_of_call(call, find_method, find_function)
    if h is None:
        return None
    body = []
    for b in h.body:
        if isinstance(b, ast.Expr) and isinstance(b.value, ast.Constant):
            continue
        if isinstance(b, ast.Assign) and len(b.targets) == 1 and isinstance(b.targets[0], ast.Tuple) \
                and isinstance(b.value, ast.Tuple) and len(b.value.elts) == len(b.targets[0].elts) \
                and all(isinstance(t, ast.Name) for t in b.targets[0].elts):
            # `a, b = x, y` reads as two assignments (when no right-hand side reads a left-hand name)
            lhs = {t.id for t in b.targets[0].elts}
            if not any(isinstance(x, ast.Name) and x.id in lhs for v in b.value.elts for x in ast.walk(v)):
                body += [ast.copy_location(ast.Assign(targets=[t], value=v), b) for t, v in zip(b.targets[0].elts, b.value.elts)]
                continue
        body.append(b)
    if not body or not isinstance(body[-1], ast.Return) or body[-1].value is None:
        return None
    if not all(isinstance(b, ast.Assign) and len(b.targets) == 1 and isinstance(b.targets[0], ast.Name) for b in body[:-1]):
        return None
    hv = clone(h)
    hv.body = body
    m = single_assignments(hv)
    if any(b.targets[0].id not in m for b in body[:-1]):
        return None
    return substitute(fully_expanded(body[-1].value, hv), _bind_call(h, call))


def fuse_generators(fn, find_method=None, find_function=None, rounds=3):
    """Copy of fn where a comprehension that iterates over a generator of tuples is read as one comprehension:
        (E for a, b in (X, Y for gens) if c)      ->   (E[a:=X, b:=Y] for gens if c[a:=X, b:=Y])
    the inner generator possibly being the value of a small helper (see straightline_value). Bound names of the inner
    generator must not be free in the outer one (no capture), else the comprehension is left alone."""
    _outer_parent = getattr(fn, "_parent", None)
    fn = clone(fn)

    def bound(gens):
        return {x.id for g in gens for x in ast.walk(g.target) if isinstance(x, ast.Name)}

    class T(ast.NodeTransformer):
        changed = False

        def _comp(self, node):
            self.generic_visit(node)
            for i, g in enumerate(node.generators):
                it = g.iter
                if isinstance(it, ast.Call):
                    v = straightline_value(it, find_method, find_function)
                    if v is not None:
                        it = v
                elif isinstance(it, ast.Name) and isinstance(local_gens.get(it.id), (ast.GeneratorExp, ast.ListComp)):
                    it = local_gens[it.id]
                if not (isinstance(it, (ast.GeneratorExp, ast.ListComp)) and isinstance(it.elt, ast.Tuple)
                        and isinstance(g.target, ast.Tuple) and len(g.target.elts) == len(it.elt.elts)
                        and all(isinstance(x, ast.Name) for x in g.target.elts)):
                    continue
                tg = {x.id for x in g.target.elts}
                inner_bound = bound(it.generators)
                rest = node.generators[i + 1:]
                outer_parts = list(g.ifs) + [y for r in rest for y in [r.iter] + list(r.ifs)] + \
                    ([node.elt] if not isinstance(node, ast.DictComp) else [node.key, node.value])
                free = {x.id for p_ in outer_parts for x in ast.walk(p_) if isinstance(x, ast.Name)} - tg - bound(rest)
                if inner_bound & free or inner_bound & bound(node.generators[:i]):
                    continue
                m = {t.id: e for t, e in zip(g.target.elts, it.elt.elts)}
                inner = [clone(x) for x in it.generators]
                inner[-1].ifs = list(inner[-1].ifs) + [substitute(t, m) for t in g.ifs]
                new_rest = []
                for r in rest:
                    r2 = clone(r)
                    r2.iter = substitute(r.iter, m)
                    r2.ifs = [substitute(t, m) for t in r.ifs]
                    new_rest.append(r2)
                node.generators = node.generators[:i] + inner + new_rest
                if isinstance(node, ast.DictComp):
                    node.key, node.value = substitute(node.key, m), substitute(node.value, m)
                else:
                    node.elt = substitute(node.elt, m)
                for x in ast.walk(node):
                    if not hasattr(x, "lineno") and isinstance(x, (ast.expr, ast.stmt)):
                        ast.copy_location(x, node)
                T.changed = True
                break
            return node
        visit_GeneratorExp = visit_ListComp = visit_SetComp = visit_DictComp = _comp

    local_gens = {}
    for _ in range(rounds):
        T.changed = False
        local_gens.clear()
        local_gens.update(single_assignments(fn))
        T().visit(fn)
        if not T.changed:
            break
    ast.fix_missing_locations(fn)
    set_parents(fn)
    fn._parent = _outer_parent         # (a helper view keeps pointing to the call it was expanded from)
    return fn


def degroup_loops(fn):
    """Copy of fn where a loop over the groups of pairs produced key by key reads as the loop over the keys:
        for k, g in groupby(((k', x) for k' in K for x in X if c), key=itemgetter(0)): BODY
            ->   for k in K:  g = ((k, x) for x in X if c);  BODY
    (the generator possibly bound to a local first). The only difference — BODY does not run for a key without items —
    does not matter to a reader who asks what k and the items of g range over."""
    _outer_parent = getattr(fn, "_parent", None)
    fn = clone(fn)
    defs = single_assignments(fn)

    def conv(loop):
        c = loop.iter
        if not (isinstance(c, ast.Call) and norm_(c.func).split(".")[-1] == "groupby" and c.args
                and isinstance(loop.target, ast.Tuple) and len(loop.target.elts) == 2
                and all(isinstance(t, ast.Name) for t in loop.target.elts)):
            return None
        src = c.args[0]
        if isinstance(src, ast.Name) and src.id in defs:
            src = defs[src.id]
        key = c.args[1] if len(c.args) > 1 else next((k.value for k in c.keywords if k.arg == "key"), None)
        if not (isinstance(src, (ast.GeneratorExp, ast.ListComp)) and len(src.generators) >= 2
                and isinstance(src.generators[0].target, ast.Name) and not src.generators[0].ifs
                and isinstance(src.elt, ast.Tuple)):
            return None
        idx = None
        if isinstance(key, ast.Call) and norm_(key.func).split(".")[-1] == "itemgetter" and len(key.args) == 1 \
                and isinstance(key.args[0], ast.Constant) and isinstance(key.args[0].value, int):
            idx = key.args[0].value
        elif isinstance(key, ast.Lambda) and len(key.args.args) == 1 and isinstance(key.body, ast.Subscript) \
                and isinstance(key.body.value, ast.Name) and key.body.value.id == key.args.args[0].arg \
                and isinstance(key.body.slice, ast.Constant) and isinstance(key.body.slice.value, int):
            idx = key.body.slice.value
        outer = src.generators[0].target.id
        if idx is None or not (0 <= idx < len(src.elt.elts)) or not (
                isinstance(src.elt.elts[idx], ast.Name) and src.elt.elts[idx].id == outer):
            return None
        kname, gname = loop.target.elts[0].id, loop.target.elts[1].id
        ren = {outer: ast.Name(id=kname, ctx=ast.Load())}
        inner = ast.GeneratorExp(elt=substitute(src.elt, ren), generators=[
            ast.comprehension(target=clone(g.target), iter=substitute(g.iter, ren), ifs=[substitute(t, ren) for t in g.ifs],
                              is_async=0) for g in src.generators[1:]])
        new = ast.For(target=ast.Name(id=kname, ctx=ast.Store()), iter=clone(src.generators[0].iter),
                      body=[ast.Assign(targets=[ast.Name(id=gname, ctx=ast.Store())], value=inner)] + loop.body,
                      orelse=loop.orelse, type_comment=None)
        for x in ast.walk(new):
            if isinstance(x, (ast.expr, ast.stmt)) and getattr(x, "lineno", None) is None:
                x.lineno, x.col_offset = loop.lineno, loop.col_offset
                x.end_lineno, x.end_col_offset = getattr(loop, "end_lineno", loop.lineno), getattr(loop, "end_col_offset", 0)
        return ast.copy_location(new, loop)

    def rewrite(stmts):
        out = []
        for s in stmts:
            for field in ("body", "orelse", "finalbody"):
                if isinstance(getattr(s, field, None), list):
                    setattr(s, field, rewrite(getattr(s, field)))
            for h in getattr(s, "handlers", []):
                h.body = rewrite(h.body)
            new = conv(s) if isinstance(s, ast.For) else None
            out.append(new if new is not None else s)
        return out
    fn.body = rewrite(fn.body)
    ast.fix_missing_locations(fn)
    set_parents(fn)
    fn._parent = _outer_parent
    return fn


def inline_generator_loops(fn, find_method=None, find_function=None):
    """Copy of fn where a loop over a generator function of the package reads as that function's body:
        x = sum((E for T in G(args) if c), start=S)   ->   x = S; for T in G(args): if c: x += E
        for T in G(args): BODY                         ->   <body of G, every `yield V` replaced by BODY[T := V]>
    G being a same-class method / same-module function whose yields are plain statements (`yield V`), without a
    `return <value>`; BODY without break / return; no name bound in G free in BODY (no capture). Anything else is left
    as it is."""
    fn = clone(fn)

    def sum_to_loop(s):
        if not (isinstance(s, ast.Assign) and len(s.targets) == 1 and isinstance(s.targets[0], ast.Name)
                and isinstance(s.value, ast.Call) and isinstance(s.value.func, ast.Name) and s.value.func.id == "sum"
                and s.value.args and isinstance(s.value.args[0], (ast.GeneratorExp, ast.ListComp))):
            return None
        v = s.value
        start = next((k.value for k in v.keywords if k.arg == "start"), v.args[1] if len(v.args) > 1 else None)
        if start is None:
            return None
        name = s.targets[0].id
        if any(isinstance(x, ast.Name) and x.id == name for x in ast.walk(v)):
            return None
        leaf = ast.AugAssign(target=ast.Name(id=name, ctx=ast.Store()), op=ast.Add(), value=v.args[0].elt)
        return [ast.Assign(targets=[ast.Name(id=name, ctx=ast.Store())], value=start)] + _comp_to_loops(v.args[0], leaf)

    def gen_body(loop):
        if not isinstance(loop.iter, ast.Call) or loop.orelse:
            return None
        g = _helper_of_call(loop.iter, find_method, find_function)
        if g is None or g.name == fn.name:
            return None
        own = [n for n in ast.walk(g) if not isinstance(n, (ast.FunctionDef, ast.Lambda)) or n is g]
        ys = [n for n in own if isinstance(n, ast.Yield)]
        if not ys or any(isinstance(n, ast.YieldFrom) for n in own) or any(isinstance(n, ast.Return) and n.value is not None for n in own):
            return None
        if any(isinstance(n, (ast.Break, ast.Return)) for b in loop.body for n in ast.walk(b)):
            return None
        gv = helper_view(g, loop.iter)
        g_bound = {x.id for n in ast.walk(gv) for x in ([n] if isinstance(n, ast.Name) and isinstance(n.ctx, ast.Store) else [])}
        tnames = {x.id for x in ast.walk(loop.target) if isinstance(x, ast.Name)}
        free = {x.id for b in loop.body for x in ast.walk(b) if isinstance(x, ast.Name)} - tnames
        if g_bound & free:
            return None
        ok = [True]

        def repl(stmts):
            out = []
            for st in stmts:
                if isinstance(st, ast.Expr) and isinstance(st.value, ast.Yield):
                    v = st.value.value
                    if isinstance(loop.target, ast.Name) and v is not None:
                        m = {loop.target.id: v}
                    elif isinstance(loop.target, ast.Tuple) and isinstance(v, ast.Tuple) and len(v.elts) == len(loop.target.elts) \
                            and all(isinstance(t, ast.Name) for t in loop.target.elts):
                        m = {t.id: e for t, e in zip(loop.target.elts, v.elts)}
                    else:
                        ok[0] = False
                        return out
                    out.extend(substitute_stmt(b, m) for b in loop.body)
                    continue
                if any(isinstance(x, ast.Yield) for x in ast.walk(st)):
                    if not isinstance(st, (ast.For, ast.While, ast.If, ast.With, ast.Try)):
                        ok[0] = False
                        return out
                    st = clone(st)
                    for field in ("body", "orelse", "finalbody"):
                        if isinstance(getattr(st, field, None), list):
                            setattr(st, field, repl(getattr(st, field)))
                    for h in getattr(st, "handlers", []):
                        h.body = repl(h.body)
                    if any(isinstance(x, ast.Yield) for x in ast.walk(st)):
                        ok[0] = False      # a yield in a test / iterable / with item
                out.append(st)
            return out
        body = repl([b for b in gv.body if not (isinstance(b, ast.Expr) and isinstance(b.value, ast.Constant))])
        return body if ok[0] else None

    def rewrite(stmts):
        out = []
        for s in stmts:
            pre = sum_to_loop(s)
            for b in pre or []:
                for x in ast.walk(b):
                    if isinstance(x, (ast.expr, ast.stmt)) and getattr(x, "lineno", None) is None:
                        x.lineno, x.col_offset = s.lineno, s.col_offset
                        x.end_lineno, x.end_col_offset = getattr(s, "end_lineno", s.lineno), getattr(s, "end_col_offset", 0)
            for s2 in (pre if pre is not None else [s]):
                for field in ("body", "orelse", "finalbody"):
                    if isinstance(getattr(s2, field, None), list):
                        setattr(s2, field, rewrite(getattr(s2, field)))
                for h in getattr(s2, "handlers", []):
                    h.body = rewrite(h.body)
                new = gen_body(s2) if isinstance(s2, ast.For) else None
                for b in (new if new is not None else [s2]):
                    for x in ast.walk(b):
                        if isinstance(x, (ast.expr, ast.stmt)) and getattr(x, "lineno", None) is None:
                            x.lineno, x.col_offset = s2.lineno, s2.col_offset
                            x.end_lineno, x.end_col_offset = getattr(s2, "end_lineno", s2.lineno), getattr(s2, "end_col_offset", 0)
                    out.append(b)
        return out
    fn.body = rewrite(fn.body)
    return set_parents(fn)


def hoist_value_helpers(fn, find_method, max_body=12):
    """Copy of fn where a call `self.<helper>(args)` that sits inside a larger statement — `super().append(self.link(v))` —
    reads as the helper's statements placed before that statement and the expression it returns in place of the call:
        w__link = Wrapper(v); w__link.attach(…); super().append(w__link)
    for helpers of the class that are straight-line (assignments / expression statements) and end with one `return <expr>`;
    their locals are renamed (suffix `__<helper>`), arguments must be plain (names, attributes, constants)."""
    fn = clone(fn)

    def simple(e):
        return isinstance(e, (ast.Name, ast.Constant)) or (isinstance(e, ast.Attribute) and simple(e.value))

    def expand(st):
        pre = []
        for _ in range(3):
            target = None
            for c in ast.walk(st):
                if c is getattr(st, "value", None) and isinstance(st, (ast.Expr,)):
                    continue          # a call that *is* the statement: inline_helpers' business
                if isinstance(c, ast.Call) and isinstance(c.func, ast.Attribute) and isinstance(c.func.value, ast.Name) \
                        and c.func.value.id == "self" and not c.keywords \
                        and not any(isinstance(a, ast.Starred) for a in c.args):
                    h = find_method(c.func.attr)
                    if h is None or h.name == fn.name or any("property" in norm_(d) for d in h.decorator_list):
                        continue
                    body = [b for b in h.body if not (isinstance(b, ast.Expr) and isinstance(b.value, ast.Constant))]
                    if not body or len(body) > max_body or not isinstance(body[-1], ast.Return) or body[-1].value is None:
                        continue
                    if not all(isinstance(b, (ast.Assign, ast.Expr)) for b in body[:-1]) or any(
                            isinstance(x, (ast.Return, ast.Yield, ast.YieldFrom)) for b in body[:-1] for x in ast.walk(b)):
                        continue
                    if len(body) == 1:
                        continue      # a single return: expression inlining handles it
                    target = (c, h, body)
                    break
            if target is None:
                break
            c, h, body = target
            m = _bind_call(h, c)
            stored = {x.id for b in body for x in ast.walk(b) if isinstance(x, ast.Name) and isinstance(x.ctx, ast.Store)}
            for nm in stored:
                if nm not in m:
                    m[nm] = ast.Name(id=f"{nm}__{h.name.strip('_')}", ctx=ast.Load())
            # an argument that is not plain (`self._link(Wrapper(v))`) is evaluated once, into a local named after the
            # parameter: the helper's statements and the value it returns speak of the same object
            arg_pre = []
            for pn, a in list(m.items()):
                if pn in stored or simple(a):
                    continue
                tmp = f"{pn}__{h.name.strip('_')}"
                arg_pre.append(ast.Assign(targets=[ast.Name(id=tmp, ctx=ast.Store())], value=a, lineno=st.lineno,
                                          col_offset=st.col_offset))
                m[pn] = ast.Name(id=tmp, ctx=ast.Load())
            new_pre = arg_pre + [substitute_stmt(b, m) for b in body[:-1]]
            value = substitute(body[-1].value, m)
            for x in [y for b in new_pre for y in ast.walk(b)] + list(ast.walk(value)):
                if isinstance(x, (ast.expr, ast.stmt)):
                    x.lineno, x.col_offset = st.lineno, st.col_offset
                    x.end_lineno, x.end_col_offset = getattr(st, "end_lineno", st.lineno), getattr(st, "end_col_offset", 0)

            class R(ast.NodeTransformer):
                def visit_Call(self, node):
                    if node is c:
                        return value
                    self.generic_visit(node)
                    return node
            st = R().visit(st)
            pre += new_pre
        return pre + [st]

    def rewrite(stmts):
        out = []
        for s_ in stmts:
            for field in ("body", "orelse", "finalbody"):
                sub = getattr(s_, field, None)
                if isinstance(sub, list) and sub and isinstance(sub[0], ast.stmt):
                    setattr(s_, field, rewrite(sub))
            for hd in getattr(s_, "handlers", []):
                hd.body = rewrite(hd.body)
            if isinstance(s_, (ast.Expr, ast.Assign, ast.AugAssign, ast.Return)):
                out += expand(s_)
            else:
                out.append(s_)
        return out
    fn.body = rewrite(fn.body)
    ast.fix_missing_locations(fn)
    return set_parents(fn)


def record_bindings(fn, find_method=None, find_function=None, record_classes=None, find_property=None):
    """{local: (record ClassDef, {field: expression})} for `x = self.<helper>(args)` / `x = helper(args)` / `x = R(…)` bound
    once in fn, the helper being straight-line and returning one record construction `R(e1, e2, …)` of a NamedTuple /
    dataclass of the module (record_classes: name -> ClassDef); the field expressions are in fn's own terms"""
    out = {}
    record_classes = record_classes or {}
    sa = single_assignments(fn)
    def unstar(args):
        """R(*[E(b) for b in (a1, a2)]) reads R(E(a1), E(a2)); None when a starred argument is anything else"""
        out_ = []
        for a in args:
            if not isinstance(a, ast.Starred):
                out_.append(a)
                continue
            c = a.value
            if isinstance(c, (ast.ListComp, ast.GeneratorExp)) and len(c.generators) == 1 and not c.generators[0].ifs \
                    and isinstance(c.generators[0].target, ast.Name) and isinstance(c.generators[0].iter, (ast.Tuple, ast.List)):
                out_ += [substitute(c.elt, {c.generators[0].target.id: x}) for x in c.generators[0].iter.elts]
            elif isinstance(c, (ast.Tuple, ast.List)):
                out_ += list(c.elts)
            else:
                return None
        return out_
    for name, v in sa.items():
        val = v
        via = None
        if isinstance(v, ast.Attribute) and find_property is not None and isinstance(v.ctx, ast.Load):
            # `x = obj.<property>` of the one class of the package that has a property of that name: its returned
            # expression, `self` standing for obj
            hp = find_property(v.attr)
            if hp is not None and hp.args.args:
                fake = ast.Call(func=ast.Name(id=hp.name, ctx=ast.Load()), args=[], keywords=[])
                pv = straightline_value(fake, None, lambda nm, _h=hp: _h if nm == _h.name else None)
                if pv is not None:
                    val = substitute(pv, {hp.args.args[0].arg: v.value})
                    via = hp
        if isinstance(v, ast.Call) and not (isinstance(v.func, ast.Name) and v.func.id in record_classes):
            val = straightline_value(v, find_method, find_function)
            via = _helper_of_call(v, find_method, find_function)
        if not (isinstance(val, ast.Call) and isinstance(val.func, ast.Name)):
            continue
        rname = val.func.id
        if rname == "cls" and via is not None and isinstance(getattr(via, "_parent", None), ast.ClassDef) \
                and via._parent.name in record_classes:
            rname = via._parent.name        # `cls(…)` in a classmethod of the record class itself
        if rname not in record_classes:
            continue
        args_ = unstar(val.args)
        if args_ is None:
            continue
        rc = record_classes[rname]
        if not isinstance(rc, ast.ClassDef):
            continue
        fields = [b.target.id for b in rc.body if isinstance(b, ast.AnnAssign) and isinstance(b.target, ast.Name)]
        m = dict(zip(fields, args_))
        m.update({k.arg: k.value for k in val.keywords if k.arg})
        if set(m) == set(fields):
            out[name] = (rc, m)
    return out


def split_record_arms(fn, record_classes):
    """Copy of fn (nodes traceable through `_origin`) in which a record bound once per arm of an `if / elif / else` chain —
        if A: x = R(…)   elif B: …; x = R(…)   else: raise …
        <tail that uses x>
    is bound to a name of its own in each arm, the tail following it there: every such name is bound once, so the record
    reads as its field expressions (`expand_records`). Arms that raise are kept as they are; a tail of more than 8
    statements, or one with loops, is left alone."""
    record_classes = record_classes or {}
    out = clone_with_origin(fn)

    def arms_of(node):
        arms = [node.body]
        while len(node.orelse) == 1 and isinstance(node.orelse[0], ast.If):
            node = node.orelse[0]
            arms.append(node.body)
        if node.orelse:
            arms.append(node.orelse)
        return arms

    def binding(arm):
        last = arm[-1] if arm else None
        if isinstance(last, ast.Assign) and len(last.targets) == 1 and isinstance(last.targets[0], ast.Name) \
                and isinstance(last.value, ast.Call) and isinstance(last.value.func, ast.Name) and last.value.func.id in record_classes:
            return last.targets[0].id
        return None

    def rename(node, old, new_):
        for x in ast.walk(node):
            if isinstance(x, ast.Name) and x.id == old:
                x.id = new_
        return node

    def visit(stmts):
        for st in stmts:
            for fld in ("body", "orelse", "finalbody"):
                sub = getattr(st, fld, None)
                if isinstance(sub, list) and sub and isinstance(sub[0], ast.stmt) and not isinstance(st, (ast.FunctionDef, ast.ClassDef)):
                    visit(sub)
        for i, st in enumerate(stmts):
            if not isinstance(st, ast.If):
                continue
            arms = arms_of(st)
            names = {binding(a) for a in arms if binding(a)}
            raising = [a for a in arms if a and isinstance(a[-1], ast.Raise)]
            tail = stmts[i + 1:]
            if len(names) != 1 or len([a for a in arms if binding(a)]) < 2 or len(raising) + len([a for a in arms if binding(a)]) != len(arms) \
                    or not tail or len(tail) > 8 or any(isinstance(x, (ast.For, ast.While)) for t in tail for x in ast.walk(t)):
                continue
            x = next(iter(names))
            # the chain must be complete (an else arm) — otherwise the tail also runs with x unbound by the chain
            last_if = st
            while len(last_if.orelse) == 1 and isinstance(last_if.orelse[0], ast.If):
                last_if = last_if.orelse[0]
            if not last_if.orelse:
                continue
            n = 0
            for a in arms:
                if binding(a) != x:
                    continue
                n += 1
                nm = f"{x}__arm{n}"
                rename(a[-1], x, nm)
                a.extend(rename(clone_with_origin(t), x, nm) for t in tail)
            del stmts[i + 1:]
            break
    visit(out.body)
    return set_parents(out)


def expand_records(fn, find_method=None, find_function=None, record_classes=None, find_property=None):
    """Copy of fn (nodes traceable through `_origin`) where the uses of a record built by a straight-line helper read as
    what they stand for: `x.field` is the field's expression, `x.prop` / `x.method(args)` the single expression the
    property / method of the record class returns, with `self.<field>` replaced by the fields' expressions"""
    binds = record_bindings(fn, find_method, find_function, record_classes, find_property)
    out = clone_with_origin(fn)
    if not binds:
        return set_parents(out)

    def member(rc, name):
        return next((b for b in rc.body if isinstance(b, ast.FunctionDef) and b.name == name), None)

    def single_ret(f):
        body = [b for b in f.body if not (isinstance(b, ast.Expr) and isinstance(b.value, ast.Constant))]
        return body[0].value if len(body) == 1 and isinstance(body[0], ast.Return) and body[0].value is not None else None

    def instantiate(expr, fields, params):
        """expr of a record method with self.<field> / parameters replaced"""
        class T(ast.NodeTransformer):
            def visit_Attribute(self, node):
                if isinstance(node.value, ast.Name) and node.value.id == "self" and node.attr in fields \
                        and isinstance(node.ctx, ast.Load):
                    return ast.copy_location(clone(fields[node.attr]), node)
                self.generic_visit(node)
                return node

            def visit_Name(self, node):
                if node.id in params and isinstance(node.ctx, ast.Load):
                    return ast.copy_location(clone(params[node.id]), node)
                return node
        return T().visit(clone_with_origin(expr))

    class U(ast.NodeTransformer):
        def visit_Call(self, node):
            f = node.func
            if isinstance(f, ast.Attribute) and isinstance(f.value, ast.Name) and f.value.id in binds and not node.keywords \
                    and not any(isinstance(a, ast.Starred) for a in node.args):
                rc, fields = binds[f.value.id]
                m = member(rc, f.attr)
                r = single_ret(m) if m is not None else None
                if r is not None:
                    ps = [a.arg for a in m.args.args][1:]
                    if len(ps) == len(node.args):
                        args = [self.visit(a) for a in node.args]
                        return ast.copy_location(instantiate(r, fields, dict(zip(ps, args))), node)
            self.generic_visit(node)
            return node

        def visit_Attribute(self, node):
            if isinstance(node.value, ast.Name) and node.value.id in binds and isinstance(node.ctx, ast.Load):
                rc, fields = binds[node.value.id]
                if node.attr in fields:
                    return ast.copy_location(clone(fields[node.attr]), node)
                m = member(rc, node.attr)
                if m is not None and any(norm_(d).endswith("property") for d in m.decorator_list):
                    r = single_ret(m)
                    if r is not None:
                        return ast.copy_location(instantiate(r, fields, {}), node)
            self.generic_visit(node)
            return node
    out = U().visit(out)
    ast.fix_missing_locations(out)
    return set_parents(out)


def exits(body):
    return bool(body) and isinstance(body[-1], (ast.Continue, ast.Break, ast.Return, ast.Raise))


def path_conditions(stmt, fn):
    """[(test, polarity)] that hold when `stmt` executes: enclosing if-tests (True in body, False in orelse) and the
    negation of every earlier sibling `if` whose body always leaves the block (continue / break / return / raise)"""
    out = []
    x = stmt
    while x is not None and x is not fn:
        par = getattr(x, "_parent", None)
        if par is None:
            break
        for field in ("body", "orelse"):
            block = getattr(par, field, None)
            if isinstance(block, list) and any(x is s for s in block):
                if isinstance(par, ast.If):
                    out.append((par.test, field == "body"))
                for s in block:
                    if s is x:
                        break
                    if isinstance(s, ast.If) and exits(s.body) and not s.orelse:
                        out.append((s.test, False))
                    elif isinstance(s, ast.If) and exits(s.orelse) and s.orelse and not exits(s.body):
                        out.append((s.test, True))
        x = par
    return out


def positive_atoms(conds):
    """flatten [(test, polarity)] into atoms known true / known false (handles `not`, and `and` under True, `or` under
    False)"""
    true, false = [], []

    def add(t, pol):
        if isinstance(t, ast.UnaryOp) and isinstance(t.op, ast.Not):
            add(t.operand, not pol)
        elif isinstance(t, ast.BoolOp) and isinstance(t.op, ast.And) and pol:
            for v in t.values:
                add(v, True)
        elif isinstance(t, ast.BoolOp) and isinstance(t.op, ast.Or) and not pol:
            for v in t.values:
                add(v, False)
        else:
            (true if pol else false).append(t)
    for t, pol in conds:
        add(t, pol)
    return true, false


def _bind_call(h, call):
    ps = [a.arg for a in h.args.args]
    if ps and ps[0] in ("self", "cls") and not any(
            isinstance(d, ast.Name) and d.id == "staticmethod" for d in h.decorator_list):
        ps = ps[1:]
    m = {}
    for i, a in enumerate(call.args):
        if i < len(ps) and not isinstance(a, ast.Starred):
            m[ps[i]] = a
    for k in call.keywords:
        if k.arg:
            m[k.arg] = k.value
    # a parameter that is not passed has its default (constants only: `ndigits=None`, `strict=False`)
    if not any(isinstance(a, ast.Starred) for a in call.args) and not any(k.arg is None for k in call.keywords):
        pos = h.args.args
        for p_, d_ in list(zip(pos[len(pos) - len(h.args.defaults):], h.args.defaults)) + [
                (p_, d_) for p_, d_ in zip(h.args.kwonlyargs, h.args.kw_defaults) if d_ is not None]:
            if p_.arg not in m and p_.arg in ps + [a.arg for a in h.args.kwonlyargs] and isinstance(d_, ast.Constant):
                m[p_.arg] = d_
    return m


def helper_view(h, call):
    """copy of helper `h` as seen from the call `self.h(args)`: parameters replaced by the argument expressions, every
    node positioned at the call, parent pointers set (the copy's parent is the call)"""
    m = _bind_call(h, call)
    hb = clone(h)
    hb.body = [substitute_stmt(b, m) for b in hb.body]
    fold_static(hb, getattr(h, "_parent", None))
    for n in ast.walk(hb):
        if hasattr(n, "lineno"):
            n.lineno = call.lineno
        for ch in ast.iter_child_nodes(n):
            ch._parent = n
    hb._parent = call
    return hb


def _helper_of_call(c, find_method, find_function):
    if isinstance(c.func, ast.Attribute) and isinstance(c.func.value, ast.Name) and c.func.value.id in ("self", "cls") \
            and find_method is not None:
        return find_method(c.func.attr)
    if isinstance(c.func, ast.Name) and find_function is not None:
        return find_function(c.func.id)
    if isinstance(c.func, ast.Attribute) and isinstance(c.func.value, ast.Name) and find_function is not None \
            and c.func.value.id[:1].isupper():
        # `Record.of(x)`: a class / static method of a small class of the package, for finders that know dotted names
        try:
            return find_function(f"{c.func.value.id}.{c.func.attr}")
        except Exception:
            return None
    return None


def nodes_through_helpers(fn, find_method=None, depth=3, _seen=(), want=None, _memo=None, find_function=None):
    """every AST node of fn and, transitively, of the helpers it calls — same-class methods called as
    self.<helper>(…) / cls.<helper>(…) (find_method) and same-module functions called by name (find_function) — the
    helpers' bodies being expressed in the caller's terms (see helper_view; the view's parent is the call). With `want`
    (predicate on nodes) only helpers that transitively contain a wanted node are expanded."""
    memo = {} if _memo is None else _memo

    def has_wanted(h, d, seen):
        key = (h.name, d)
        if key in memo:
            return memo[key]
        memo[key] = False
        r = False
        for c in ast.walk(h):
            if want(c):
                r = True
                break
            if d > 0 and isinstance(c, ast.Call):
                h2 = _helper_of_call(c, find_method, find_function)
                if h2 is not None and h2.name not in seen and has_wanted(h2, d - 1, seen + (h2.name,)):
                    r = True
                    break
        memo[key] = r
        return r

    out = []

    def dfs(c):
        # source order: a node, then its children; a helper's body is visited where it is called
        out.append(c)
        for ch in ast.iter_child_nodes(c):
            dfs(ch)
        if depth > 0 and isinstance(c, ast.Call) and isinstance(c.func, ast.Name) and c.func.id in ("map", "filter") and c.args:
            # map(self.h, xs) / map(h, xs): h is applied to every element — its body is part of what happens here
            f0 = c.args[0]
            hm = None
            if isinstance(f0, ast.Attribute) and isinstance(f0.value, ast.Name) and f0.value.id in ("self", "cls") \
                    and find_method is not None:
                hm = find_method(f0.attr)
            elif isinstance(f0, ast.Name) and find_function is not None:
                hm = find_function(f0.id)
            if hm is not None and hm.name not in _seen and hm.name != getattr(fn, "name", None):
                if want is None or has_wanted(hm, depth - 1, _seen + (hm.name,)):
                    hv = clone(hm)
                    for n_ in ast.walk(hv):
                        for ch in ast.iter_child_nodes(n_):
                            ch._parent = n_
                    hv._parent = c
                    out.extend(nodes_through_helpers(hv, find_method, depth - 1, _seen + (hm.name,), want, memo, find_function))
        if depth > 0 and isinstance(c, ast.Call):
            h = _helper_of_call(c, find_method, find_function)
            if h is not None and h.name not in _seen and h.name != getattr(fn, "name", None):
                if want is not None and not has_wanted(h, depth - 1, _seen + (h.name,)):
                    return
                out.extend(nodes_through_helpers(helper_view(h, c), find_method, depth - 1, _seen + (h.name,), want, memo,
                                                 find_function))
    dfs(fn)
    return out


def calls_through_helpers(fn, find_method=None, depth=3, _seen=(), want=None, _memo=None, find_function=None):
    """the Call nodes among nodes_through_helpers (want: predicate on Call nodes)"""
    w = (lambda n: isinstance(n, ast.Call) and want(n)) if want is not None else None
    return [n for n in nodes_through_helpers(fn, find_method, depth, _seen, w, _memo, find_function)
            if isinstance(n, ast.Call)]


def view_root(n):
    """(helper view FunctionDef, call it was expanded from) if n lies in a helper view, else (None, None)"""
    x = n
    while x is not None:
        p = getattr(x, "_parent", None)
        if isinstance(x, ast.FunctionDef) and isinstance(p, ast.Call):
            return x, p
        x = p
    return None, None


def single_assignments(fn):
    """{local: expression} for locals bound exactly once by a plain assignment (any expression), parameters excluded"""
    count, val = {}, {}
    for n in ast.walk(fn):
        if isinstance(n, ast.Assign):
            for t in n.targets:
                if isinstance(t, ast.Name):
                    count[t.id] = count.get(t.id, 0) + 1
                    val[t.id] = n.value
                elif isinstance(t, (ast.Tuple, ast.List)):
                    for x in ast.walk(t):
                        if isinstance(x, ast.Name) and isinstance(x.ctx, ast.Store):
                            count[x.id] = count.get(x.id, 0) + 2
                else:
                    # x[i] = … / x.a = …: x is mutated, never a plain alias of its initial value
                    b = t
                    while isinstance(b, (ast.Subscript, ast.Attribute)):
                        b = b.value
                    if isinstance(b, ast.Name):
                        count[b.id] = count.get(b.id, 0) + 2
        elif isinstance(n, (ast.AugAssign, ast.AnnAssign, ast.For, ast.comprehension, ast.NamedExpr)):
            for x in ast.walk(n.target):
                if isinstance(x, ast.Name):
                    count[x.id] = count.get(x.id, 0) + 2
        elif isinstance(n, ast.withitem) and n.optional_vars is not None:
            for x in ast.walk(n.optional_vars):
                if isinstance(x, ast.Name):
                    count[x.id] = count.get(x.id, 0) + 2
    params = {a.arg for a in fn.args.args + fn.args.kwonlyargs}
    return {k: v for k, v in val.items() if count.get(k) == 1 and k not in params}


def fully_expanded(expr, fn, rounds=4):
    """expr with every single-assignment local replaced by its defining expression (textual comparison of arguments
    across `x = f(a); g(x)` and `g(f(a))`)"""
    m = single_assignments(fn)
    for _ in range(rounds):
        new = substitute(expr, m)
        if ast.dump(new) == ast.dump(expr):
            break
        expr = new
    return expr


def expansions(expr, fn, limit=8):
    """the alternatives of `fully_expanded` when a local is bound by several plain assignments (a value refined under a
    condition: `x = f(a)` then `if c: x = g(x)`): one expression per choice of definition, a definition that mentions the
    name itself reading the other definitions there. At most `limit` alternatives; [fully_expanded] when every local
    involved is bound once."""
    single = single_assignments(fn)
    params = {a.arg for a in fn.args.args + fn.args.kwonlyargs}
    plain, other = {}, set()
    for n in ast.walk(fn):
        if isinstance(n, ast.Assign):
            for t in n.targets:
                if isinstance(t, ast.Name):
                    plain.setdefault(t.id, []).append(n.value)
                else:
                    other |= {x.id for x in ast.walk(t) if isinstance(x, ast.Name)}
        elif isinstance(n, (ast.AugAssign, ast.AnnAssign, ast.For, ast.comprehension, ast.NamedExpr)):
            other |= {x.id for x in ast.walk(n.target) if isinstance(x, ast.Name)}
        elif isinstance(n, ast.withitem) and n.optional_vars is not None:
            other |= {x.id for x in ast.walk(n.optional_vars) if isinstance(x, ast.Name)}
    # the statement list each assignment sits in: a later assignment in the *same* list as the first one replaces what was
    # bound before (straight-line code), one in a nested block adds an alternative
    block_of = {}
    for n in ast.walk(fn):
        for fld in ("body", "orelse", "finalbody"):
            lst = getattr(n, fld, None)
            if isinstance(lst, list):
                for st in lst:
                    if isinstance(st, ast.Assign):
                        block_of[id(st.value)] = id(lst)
    multi = {}
    for k, vs in plain.items():
        if k in single or k in params or k in other or len(vs) < 2 or len(vs) > 3:
            continue
        if any(isinstance(x, ast.Name) and x.id == k for x in ast.walk(vs[0])):
            continue
        vs = sorted(vs, key=lambda v: (getattr(v, "lineno", 0), getattr(v, "col_offset", 0))) \
            if len({getattr(v, "lineno", 0) for v in vs}) == len(vs) else vs
        alts = []
        for v in vs:
            selfref = any(isinstance(x, ast.Name) and x.id == k for x in ast.walk(v))
            new = [substitute(v, {k: b}) for b in alts] if selfref else [v]
            if block_of.get(id(v)) is not None and block_of.get(id(v)) == block_of.get(id(vs[0])):
                alts = new
            else:
                alts = alts + new
        if alts:
            multi[k] = alts
    outs = [fully_expanded(expr, fn)]
    for _ in range(3):
        nxt = []
        for e in outs:
            ks = sorted({x.id for x in ast.walk(e) if isinstance(x, ast.Name) and isinstance(x.ctx, ast.Load) and x.id in multi})
            if not ks:
                nxt.append(e)
                continue
            k = ks[0]
            for alt in multi[k]:
                e2 = substitute(e, {k: alt})
                for _r in range(4):
                    e3 = substitute(e2, single)
                    if ast.dump(e3) == ast.dump(e2):
                        break
                    e2 = e3
                nxt.append(e2)
        if len(nxt) > limit:
            break
        if [ast.dump(x) for x in nxt] == [ast.dump(x) for x in outs]:
            break
        outs = nxt
    return outs


def set_parents(root):
    for n in ast.walk(root):
        for ch in ast.iter_child_nodes(n):
            ch._parent = n
    return root


def _comp_to_loops(comp, leaf_stmt):
    """nested For / If statements equivalent to the generators of a comprehension, with leaf_stmt innermost"""
    body = [leaf_stmt]
    for g in reversed(comp.generators):
        for t in reversed(g.ifs):
            body = [ast.If(test=t, body=body, orelse=[])]
        body = [ast.For(target=g.target, iter=g.iter, body=body, orelse=[], type_comment=None)]
    return body


def desugar_comprehensions(fn):
    """Copy of fn where list comprehensions in statement position become explicit loops, so that a rule written for
    the loop form reads both forms:
        x = [e for a in A if c]            ->  x = []; for a in A: if c: x.append(e)
        x += [e for …]                     ->  for …: x.append(e)
        return [e for …]                   ->  _result = []; for …: _result.append(e); return _result
        x = sum([e for …], start=[])       ->  x = []; for …: x += e
    Comprehensions nested inside larger expressions are left alone."""
    fn = clone(fn)

    def app(name, elt, at):
        return ast.Expr(value=ast.Call(func=ast.Attribute(value=ast.Name(id=name, ctx=ast.Load()), attr="append",
                                                          ctx=ast.Load()), args=[elt], keywords=[]))

    def conv(s):
        if isinstance(s, ast.Assign) and len(s.targets) == 1 and isinstance(s.targets[0], ast.Name):
            name, v = s.targets[0].id, s.value
            if any(isinstance(x, ast.Name) and x.id == name for x in ast.walk(v)):
                return None        # `x = [e for e in x if …]` reads the old x: not expressible as init + loop on x
            if isinstance(v, ast.ListComp):
                return [ast.Assign(targets=[ast.Name(id=name, ctx=ast.Store())], value=ast.List(elts=[], ctx=ast.Load()))] \
                    + _comp_to_loops(v, app(name, v.elt, s))
            if isinstance(v, ast.Call) and isinstance(v.func, ast.Name) and v.func.id == "sum" and v.args \
                    and isinstance(v.args[0], (ast.ListComp, ast.GeneratorExp)):
                start = next((k.value for k in v.keywords if k.arg == "start"), v.args[1] if len(v.args) > 1 else None)
                if isinstance(start, ast.List) and not start.elts:
                    leaf = ast.AugAssign(target=ast.Name(id=name, ctx=ast.Store()), op=ast.Add(), value=v.args[0].elt)
                    return [ast.Assign(targets=[ast.Name(id=name, ctx=ast.Store())], value=start)] \
                        + _comp_to_loops(v.args[0], leaf)
        if isinstance(s, ast.AugAssign) and isinstance(s.op, ast.Add) and isinstance(s.target, ast.Name) \
                and isinstance(s.value, ast.ListComp):
            return _comp_to_loops(s.value, app(s.target.id, s.value.elt, s))
        if isinstance(s, ast.Return) and isinstance(s.value, ast.ListComp):
            return [ast.Assign(targets=[ast.Name(id="_result", ctx=ast.Store())], value=ast.List(elts=[], ctx=ast.Load()))] \
                + _comp_to_loops(s.value, app("_result", s.value.elt, s)) \
                + [ast.Return(value=ast.Name(id="_result", ctx=ast.Load()))]
        return None

    def rewrite(stmts):
        out = []
        for s in stmts:
            for field in ("body", "orelse", "finalbody"):
                if hasattr(s, field) and isinstance(getattr(s, field), list):
                    setattr(s, field, rewrite(getattr(s, field)))
            if isinstance(s, ast.Try):
                for h in s.handlers:
                    h.body = rewrite(h.body)
            new = conv(s)
            if new is None:
                out.append(s)
            else:
                for b in new:
                    for x in ast.walk(b):
                        if not hasattr(x, "lineno") or x.lineno is None:
                            x.lineno = s.lineno
                            x.col_offset = s.col_offset
                            x.end_lineno = getattr(s, "end_lineno", s.lineno)
                            x.end_col_offset = getattr(s, "end_col_offset", 0)
                    out.append(b)
        return out
    fn.body = rewrite(fn.body)
    return set_parents(fn)


def names_behind(expr, fn, rounds=4):
    """local names an expression is built from, following single-assignment locals (x = f(y); return x -> {x, y})"""
    m = single_assignments(fn)
    names = set()
    for _ in range(rounds):
        new = {x.id for x in ast.walk(expr) if isinstance(x, ast.Name)} - names
        if not new:
            break
        names |= new
        expr = ast.Tuple(elts=[m[k] for k in sorted(new) if k in m], ctx=ast.Load())
    return names


def _single_return(h):
    body = [b for b in h.body if not (isinstance(b, ast.Expr) and isinstance(b.value, ast.Constant))]
    if len(body) == 1 and isinstance(body[0], ast.Return) and body[0].value is not None:
        return body[0].value
    return None


def _is_private(name):
    return name.startswith("_") and not name.startswith("__")


def inline_private_exprs(tree, find_method_of, rounds=2, eligible=None):
    """Copy of a module tree where, inside every method, `self.<_p>` (private property that is a single `return <expr>`)
    and `self.<_h>(args)` (private single-return method) are replaced by that expression, parameters substituted. The
    extracted accessor / builder then reads exactly like the code it was extracted from. `find_method_of(class name)`
    gives name -> FunctionDef along the MRO. Returns (tree copy with parents, set of (class, helper) names inlined)."""
    tree = clone(tree)
    used = set()
    eligible = eligible or _is_private

    def is_prop(h):
        return any(isinstance(d, ast.Name) and d.id == "property" for d in h.decorator_list)

    for cls in [n for n in ast.walk(tree) if isinstance(n, ast.ClassDef)]:
        find = find_method_of(cls.name)

        class T(ast.NodeTransformer):
            def __init__(self, cur):
                self.cur = cur

            def visit_Call(self, n):
                self.generic_visit(n)
                if isinstance(n.func, ast.Attribute) and isinstance(n.func.value, ast.Name) and n.func.value.id == "self" \
                        and eligible(n.func.attr) and n.func.attr != self.cur:
                    h = find(n.func.attr)
                    if h is not None and not is_prop(h):
                        r = _single_return(h)
                        if r is not None:
                            used.add((cls.name, h.name))
                            new = substitute(r, _bind_call(h, n))
                            for x in ast.walk(new):
                                if hasattr(x, "lineno"):
                                    x.lineno = n.lineno
                            return ast.copy_location(new, n)
                return n

            def visit_Attribute(self, n):
                self.generic_visit(n)
                if isinstance(n.ctx, ast.Load) and isinstance(n.value, ast.Name) and n.value.id == "self" \
                        and eligible(n.attr) and n.attr != self.cur:
                    h = find(n.attr)
                    if h is not None and is_prop(h):
                        r = _single_return(h)
                        if r is not None:
                            used.add((cls.name, h.name))
                            new = clone(r)
                            for x in ast.walk(new):
                                if hasattr(x, "lineno"):
                                    x.lineno = n.lineno
                            return ast.copy_location(new, n)
                return n

        for _ in range(rounds):
            for i, f in enumerate(cls.body):
                if isinstance(f, ast.FunctionDef):
                    cls.body[i] = T(f.name).visit(f)
    return set_parents(tree), used


def returned_expr(ret, fn=None):
    """the expression a `return` hands back, looking through `tmp = <expr>; return tmp` (the assignment just before
    it in the same block) and, failing that, through a single-assignment local"""
    v = ret.value
    if not isinstance(v, ast.Name):
        return v
    par = getattr(ret, "_parent", None)
    for field in ("body", "orelse", "finalbody"):
        block = getattr(par, field, None)
        if isinstance(block, list) and any(s is ret for s in block):
            i = next(k for k, s in enumerate(block) if s is ret)
            if i > 0 and isinstance(block[i - 1], ast.Assign) and len(block[i - 1].targets) == 1 \
                    and isinstance(block[i - 1].targets[0], ast.Name) and block[i - 1].targets[0].id == v.id:
                return block[i - 1].value
    if fn is not None:
        m = single_assignments(fn)
        if v.id in m:
            return m[v.id]
    return v


def reaching_value(stmt, name):
    """value of the last `name = <expr>` among the statements that precede `stmt` in its own block (None if there is
    none there): enough to look through `tmp = <expr>; self.a = tmp`"""
    cur = stmt
    while cur is not None and not isinstance(cur, (ast.FunctionDef, ast.Lambda, ast.ClassDef, ast.Module)):
        par = getattr(cur, "_parent", None)
        for field in ("body", "orelse", "finalbody"):
            block = getattr(par, field, None)
            if isinstance(block, list) and any(s is cur for s in block):
                i = next(k for k, s in enumerate(block) if s is cur)
                for s in reversed(block[:i]):
                    if isinstance(s, ast.Assign) and len(s.targets) == 1 and isinstance(s.targets[0], ast.Name) \
                            and s.targets[0].id == name:
                        return s.value
                    if any(isinstance(x, ast.Name) and x.id == name and isinstance(x.ctx, ast.Store) for x in ast.walk(s)):
                        return None
        # nothing in this block: the statements that precede the enclosing `if` / `with` / `try` in *its* block reach
        # the statement too (not across a loop: an assignment later in the loop body reaches it on the next iteration)
        if isinstance(par, (ast.For, ast.While)) and any(
                isinstance(x, ast.Name) and x.id == name and isinstance(x.ctx, ast.Store) for x in ast.walk(par)):
            return None
        cur = par
    return None


def list_builder(fn, name):
    """If the local `name` is built as `name = []` followed by one loop nest whose only effect on it is a single
    `name.append(<elt>)`, return the equivalent ast.ListComp (generators = the enclosing for / if nest); else None.
    The inverse of desugar_comprehensions, for rules written against the comprehension form."""
    inits = [n for n in ast.walk(fn) if isinstance(n, ast.Assign) and len(n.targets) == 1
             and isinstance(n.targets[0], ast.Name) and n.targets[0].id == name]
    if len(inits) != 1 or not (isinstance(inits[0].value, ast.List) and not inits[0].value.elts):
        return None
    apps = [c for c in ast.walk(fn) if isinstance(c, ast.Call) and isinstance(c.func, ast.Attribute)
            and c.func.attr == "append" and isinstance(c.func.value, ast.Name) and c.func.value.id == name]
    others = [x for x in ast.walk(fn) if isinstance(x, ast.Name) and x.id == name and isinstance(x.ctx, ast.Store)]
    if len(apps) != 1 or len(others) != 1 or len(apps[0].args) != 1:
        return None
    gens, x = [], getattr(apps[0], "_parent", None)       # Expr statement
    ifs = []
    x = getattr(x, "_parent", None)
    stop = getattr(inits[0], "_parent", None)              # the nest lives in the block that holds the initialisation
    while x is not None and x is not fn and x is not stop:
        if isinstance(x, ast.If):
            # only the positive arm of a plain `if` (no else) is a comprehension filter
            if x.orelse:
                return None
            ifs.insert(0, x.test)
        elif isinstance(x, ast.For):
            gens.insert(0, ast.comprehension(target=x.target, iter=x.iter, ifs=ifs, is_async=0))
            ifs = []
        elif not isinstance(x, ast.FunctionDef):
            return None
        x = getattr(x, "_parent", None)
    if ifs or not gens:
        return None
    comp = ast.ListComp(elt=apps[0].args[0], generators=gens)
    ast.copy_location(comp, inits[0])
    return comp


def callee_texts(call, fn):
    """normalised texts of what a call may invoke: the callee itself, or — for a local bound to a function or to a
    conditional choice between functions (`f = np.maximum if c else np.minimum; f(a, b)`) — each alternative"""
    out = set()
    todo = [call.func]
    m = single_assignments(fn) if fn is not None else {}
    seen = 0
    while todo and seen < 20:
        seen += 1
        f = todo.pop()
        if isinstance(f, ast.IfExp):
            todo += [f.body, f.orelse]
        elif isinstance(f, ast.Name) and f.id in m:
            todo.append(m[f.id])
        else:
            out.add(norm(f))
    return out


def source_order(fn):
    """{id(node): rank} in source (depth-first, pre-order) order — line numbers cannot order inlined statements, which
    all carry the line of the call they replace"""
    out = {}

    def visit(n):
        out[id(n)] = len(out)
        for ch in ast.iter_child_nodes(n):
            visit(ch)
    visit(fn)
    return out
