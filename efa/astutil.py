"""Small AST utilities shared by the syntax-directed rules: alias expansion, name substitution, one-level inlining of
private helper methods, path conditions (with early-exit guards). They exist so that behaviour-preserving refactorings
(a local alias, an extracted helper, `if not ok: continue` instead of `if ok: ...`) do not change a rule's verdict."""
import ast
import copy

from .frontend import norm


def substitute(expr, mapping):
    """copy of expr with every Name in `mapping` replaced by (a copy of) its expression"""
    class Sub(ast.NodeTransformer):
        def visit_Name(self, n):
            if n.id in mapping and isinstance(n.ctx, ast.Load):
                return ast.copy_location(copy.deepcopy(mapping[n.id]), n)
            return n
    return Sub().visit(copy.deepcopy(expr))


def _is_simple_alias(e):
    """attribute chains, names, len(<simple>), subscripts with constant index: safe to substitute"""
    if isinstance(e, ast.Name):
        return True
    if isinstance(e, ast.Attribute):
        return _is_simple_alias(e.value)
    if isinstance(e, ast.Subscript):
        return _is_simple_alias(e.value) and isinstance(e.slice, (ast.Constant, ast.Name))
    if isinstance(e, ast.Call) and isinstance(e.func, ast.Name) and e.func.id == "len" and len(e.args) == 1:
        return _is_simple_alias(e.args[0])
    return False


def aliases(fn):
    """{local name: expression} for locals assigned exactly once from a simple alias expression"""
    count, val = {}, {}
    for n in ast.walk(fn):
        if isinstance(n, ast.Assign):
            for t in n.targets:
                if isinstance(t, ast.Name):
                    count[t.id] = count.get(t.id, 0) + 1
                    val[t.id] = n.value
                elif isinstance(t, ast.Tuple) and isinstance(n.value, ast.Tuple) and len(t.elts) == len(n.value.elts):
                    for a, b in zip(t.elts, n.value.elts):
                        if isinstance(a, ast.Name):
                            count[a.id] = count.get(a.id, 0) + 1
                            val[a.id] = b
        elif isinstance(n, (ast.AugAssign, ast.For, ast.comprehension)):
            tg = n.target
            for x in ast.walk(tg):
                if isinstance(x, ast.Name):
                    count[x.id] = count.get(x.id, 0) + 2
    params = {a.arg for a in fn.args.args}
    out = {k: v for k, v in val.items() if count.get(k) == 1 and k not in params and _is_simple_alias(v)}
    # resolve chains of aliases
    for _ in range(4):
        out = {k: substitute(v, {kk: vv for kk, vv in out.items() if kk != k}) for k, v in out.items()}
    return out


def expanded(expr, fn):
    """expr with the function's simple local aliases substituted"""
    return substitute(expr, aliases(fn))


def enorm(expr, fn):
    return norm(expanded(expr, fn))


def inline_helpers(fn, find_method, max_body=12):
    """Copy of fn in which statement-level calls `self.<helper>(args)` (and `x = self.<helper>(args)` for helpers that
    are a single `return <expr>`) of small private helpers are replaced by the helper's body, parameters substituted.
    `find_method(name)` returns the helper's FunctionDef or None."""
    fn = copy.deepcopy(fn)

    def helper_of(call):
        if isinstance(call, ast.Call) and isinstance(call.func, ast.Attribute) and isinstance(call.func.value, ast.Name) \
                and call.func.value.id == "self":
            h = find_method(call.func.attr)
            if h is not None and h is not fn and h.name != fn.name and len(h.body) <= max_body \
                    and not any(isinstance(x, (ast.Yield, ast.YieldFrom)) for x in ast.walk(h)):
                return h
        return None

    def bind(h, call):
        ps = [a.arg for a in h.args.args][1:]
        m = {}
        for i, a in enumerate(call.args):
            if i < len(ps):
                m[ps[i]] = a
        for k in call.keywords:
            if k.arg:
                m[k.arg] = k.value
        return m

    def rewrite(stmts):
        out = []
        for s in stmts:
            for field in ("body", "orelse", "finalbody"):
                if hasattr(s, field) and isinstance(getattr(s, field), list):
                    setattr(s, field, rewrite(getattr(s, field)))
            if isinstance(s, ast.Try):
                for h in s.handlers:
                    h.body = rewrite(h.body)
            if isinstance(s, ast.Expr):
                h = helper_of(s.value)
                if h is not None and not any(isinstance(x, ast.Return) and x.value is not None for x in ast.walk(h)):
                    m = bind(h, s.value)
                    body = [b for b in h.body if not (isinstance(b, ast.Expr) and isinstance(b.value, ast.Constant))]
                    for b in body:
                        nb = substitute_stmt(b, m)
                        ast.copy_location(nb, s)
                        for x in ast.walk(nb):
                            if hasattr(x, "lineno"):
                                x.lineno = s.lineno
                        out.append(nb)
                    continue
            if isinstance(s, ast.Assign) and len(s.targets) == 1:
                h = helper_of(s.value)
                body = [b for b in h.body if not (isinstance(b, ast.Expr) and isinstance(b.value, ast.Constant))] if h else []
                if h is not None and len(body) == 1 and isinstance(body[0], ast.Return) and body[0].value is not None:
                    s.value = substitute(body[0].value, bind(h, s.value))
            out.append(s)
        return out
    fn.body = rewrite(fn.body)
    for n in ast.walk(fn):
        for ch in ast.iter_child_nodes(n):
            ch._parent = n
    return fn


def substitute_stmt(stmt, mapping):
    class Sub(ast.NodeTransformer):
        def visit_Name(self, n):
            if n.id in mapping:
                rep = copy.deepcopy(mapping[n.id])
                if isinstance(n.ctx, ast.Store):
                    if isinstance(rep, (ast.Name, ast.Attribute, ast.Subscript)):
                        rep.ctx = ast.Store()
                        return ast.copy_location(rep, n)
                    return n
                return ast.copy_location(rep, n)
            return n
    return Sub().visit(copy.deepcopy(stmt))


def inline_call_expr(call, find_method):
    """value of `self.<helper>(args)` when the helper is a single `return <expr>`: that expr with params substituted"""
    if isinstance(call, ast.Call) and isinstance(call.func, ast.Attribute) and isinstance(call.func.value, ast.Name) \
            and call.func.value.id == "self":
        h = find_method(call.func.attr)
        if h is None:
            return None
        body = [b for b in h.body if not (isinstance(b, ast.Expr) and isinstance(b.value, ast.Constant))]
        if len(body) == 1 and isinstance(body[0], ast.Return) and body[0].value is not None:
            ps = [a.arg for a in h.args.args][1:]
            m = {}
            for i, a in enumerate(call.args):
                if i < len(ps):
                    m[ps[i]] = a
            for k in call.keywords:
                if k.arg:
                    m[k.arg] = k.value
            return substitute(body[0].value, m)
    return None


def exits(body):
    return bool(body) and isinstance(body[-1], (ast.Continue, ast.Break, ast.Return, ast.Raise))


def path_conditions(stmt, fn):
    """[(test, polarity)] that hold when `stmt` executes: enclosing if-tests (True in body, False in orelse) and the
    negation of every earlier sibling `if` whose body always leaves the block (continue / break / return / raise)"""
    out = []
    x = stmt
    while x is not None and x is not fn:
        par = getattr(x, "_parent", None)
        if par is None:
            break
        for field in ("body", "orelse"):
            block = getattr(par, field, None)
            if isinstance(block, list) and any(x is s for s in block):
                if isinstance(par, ast.If):
                    out.append((par.test, field == "body"))
                for s in block:
                    if s is x:
                        break
                    if isinstance(s, ast.If) and exits(s.body) and not s.orelse:
                        out.append((s.test, False))
                    elif isinstance(s, ast.If) and exits(s.orelse) and s.orelse and not exits(s.body):
                        out.append((s.test, True))
        x = par
    return out


def positive_atoms(conds):
    """flatten [(test, polarity)] into atoms known true / known false (handles `not`, and `and` under True, `or` under
    False)"""
    true, false = [], []

    def add(t, pol):
        if isinstance(t, ast.UnaryOp) and isinstance(t.op, ast.Not):
            add(t.operand, not pol)
        elif isinstance(t, ast.BoolOp) and isinstance(t.op, ast.And) and pol:
            for v in t.values:
                add(v, True)
        elif isinstance(t, ast.BoolOp) and isinstance(t.op, ast.Or) and not pol:
            for v in t.values:
                add(v, False)
        else:
            (true if pol else false).append(t)
    for t, pol in conds:
        add(t, pol)
    return true, false
