"""efa — e-footprint analyser.

Static analysis of Boavizta/e-footprint (pure stdlib `ast`; never imports or runs efootprint).
See /verif/DESIGN.md.
"""
