"""Findings, rule results, known-findings matching and evidence files (DESIGN §2, §8)."""
import hashlib
import json
import os
from dataclasses import dataclass, field

VERIF = os.path.dirname(os.path.dirname(os.path.abspath(__file__)))
EVIDENCE_DIR = os.environ.get("EFA_EVIDENCE_DIR") or os.path.join(VERIF, "evidence")   # redirected for scratch runs
KNOWN = os.path.join(VERIF, "known_findings.json")


@dataclass
class Finding:
    rule: str
    key: str          # qualified construct + normalised statement text — never a line number
    message: str
    file: str = ""
    line: int = 0
    function: str = ""
    extra: dict = field(default_factory=dict)

    def __post_init__(self):
        # inlined statements carry fractional positions (canon._relocate): the report shows the real source line
        try:
            self.line = int(self.line)
        except (TypeError, ValueError):
            self.line = 0

    def ident(self):
        return f"{self.rule}::{self.key}"

    def to_json(self):
        return {"rule": self.rule, "key": self.key, "message": self.message, "file": self.file, "line": self.line,
                "function": self.function, **({"extra": self.extra} if self.extra else {})}


@dataclass
class RuleResult:
    rule: str
    statement: str
    instances: int = 0
    floor: int = 0
    findings: list = field(default_factory=list)
    samples: list = field(default_factory=list)
    undecided: list = field(default_factory=list)
    notes: list = field(default_factory=list)
    breakdown: dict = field(default_factory=dict)

    def violated_instances(self):
        return len({f.ident() for f in self.findings})


def load_known():
    if not os.path.exists(KNOWN):
        return {"findings": [], "fixed": []}
    with open(KNOWN) as f:
        return json.load(f)


def write_evidence(prop, tier, seed, level, coverage, assumptions, wall_s, violations):
    os.makedirs(EVIDENCE_DIR, exist_ok=True)
    ev = {"property_id": prop, "tier": tier, "seed": seed, "level": level, "coverage": coverage,
          "assumptions": assumptions, "wall_s": round(wall_s, 3), "violations": violations}
    path = os.path.join(EVIDENCE_DIR, f"{prop}.json")
    tmp = path + ".tmp"
    with open(tmp, "w") as f:
        json.dump(ev, f, indent=1, sort_keys=False, default=str)
    os.replace(tmp, path)
    return path


def write_violation_record(prop, finding):
    d = os.path.join(EVIDENCE_DIR, "violations")
    os.makedirs(d, exist_ok=True)
    h = hashlib.sha1(finding.ident().encode()).hexdigest()[:10]
    path = os.path.join(d, f"{prop}-{finding.rule}-{h}.json")
    with open(path, "w") as f:
        json.dump({"property": prop, **finding.to_json()}, f, indent=1, default=str)
    return path
