"""Abstract interpreter over update rules, helper methods and properties (DESIGN §4).

One syntax-directed interpreter; each expression evaluates to a `V` carrying
  * a structural kind (explainable value, model object, list, dict, raw Python value, bound method …),
  * provenance: `anc` (what the value-level graph will record as ancestors) and `deps` (everything whose number,
    emptiness, sign or dispatch value influenced it) as sets of attribute references,
  * `deg`: homogeneity-degree vector over attribute references (None = bottom = zero/empty),
  * `fresh` / `label` / `shares`: created-here, labelled, frame shared with a model attribute.
Joins are may-joins (set union); obligations are checked at construction and write sites by the rules.
"""
import ast
from dataclasses import dataclass, field

from .frontend import AnalysisError, is_property, is_static, is_classmethod, E_KIND, norm

F = frozenset
TOP = "T"
MAX_DEPTH = 64

E_CTORS = {"ExplainableQuantity": "EQ", "ExplainableHourlyQuantities": "EHQ", "EmptyExplainableObject": "EMPTY",
           "ExplainableObject": "EOBJ", "SourceValue": "EQ", "SourceObject": "EOBJ", "SourceHourlyValues": "EHQ"}
# positional parameter order of the explainable constructors
CTOR_PARAMS = {
    "ExplainableQuantity": ["value", "label", "left_parent", "right_parent", "operator", "source"],
    "ExplainableHourlyQuantities": ["value", "label", "left_parent", "right_parent", "operator", "source"],
    "ExplainableObject": ["value", "label", "left_parent", "right_parent", "operator", "source"],
    "EmptyExplainableObject": ["label", "left_parent", "right_parent", "operator"],
    "SourceValue": ["value", "source", "label"],
    "SourceObject": ["value", "source", "label"],
    "SourceHourlyValues": ["value", "source", "label"],
}

# Explainable methods: name -> (parents recorded: 'self' and/or 'args', linear?, value-changing in place?, returns self?)
# Frozen from explainable_objects.py / explainable_object_base_class.py; rule R-SUMMARY re-derives it from the source.
E_METHODS = {
    "to": dict(parents="self", linear=True, inplace="unit", returns_self=True),
    "set_label": dict(parents="self", linear=True, inplace=None, returns_self=True),
    "copy": dict(parents="self", linear=True, inplace=None, returns_self=False),
    "abs": dict(parents="self", linear=True, inplace=None, returns_self=False),
    "ceil": dict(parents="self", linear=False, inplace="value-EQ", returns_self=False),
    "round": dict(parents="self", linear=False, inplace="value", returns_self=True),
    "max": dict(parents="self", linear=True, inplace=None, returns_self=False),
    "sum": dict(parents="self", linear=True, inplace=None, returns_self=False),
    "mean": dict(parents="self", linear=True, inplace=None, returns_self=False),
    "np_compared_with": dict(parents="self+args", linear="join", inplace=None, returns_self=False),
    "return_shifted_hourly_quantities": dict(parents="self+args", linear="recv", inplace=None, returns_self=False),
    "convert_to_utc": dict(parents="self+args", linear="recv", inplace=None, returns_self=False),
    "generate_explainable_object_with_logical_dependency": dict(parents="self+args", linear="recv", inplace=None,
                                                                returns_self=False),
    "compare_with_and_return_max": dict(parents="self+args", linear="join", inplace=None, returns_self=False),
    "__round__": dict(parents="self", linear=False, inplace=None, returns_self=False),
    "__copy__": dict(parents="self", linear=True, inplace=None, returns_self=False),
    "__neg__": dict(parents="self", linear=True, inplace=None, returns_self=False),
}
# attribute reads on an explainable value that yield raw (unrecorded) data
E_RAW_ATTRS = {"value", "magnitude", "unit", "values", "index", "iloc", "units", "value_as_float_list", "m"}
E_META_ATTRS = {"label", "source", "left_parent", "right_parent", "operator", "id", "modeling_obj_container",
                "attr_name_in_mod_obj_container", "has_parent", "direct_ancestors_with_id", "direct_children_with_id"}
PLAIN_MODEL_ATTRS = {"name", "id", "trigger_modeling_updates", "contextual_modeling_obj_containers", "short_name",
                     "impact_url"}
LIN_RAW = {"shift", "copy", "cumsum", "abs", "sum", "max", "min", "mean", "to", "to_numpy", "tz_localize", "tz_convert",
           "groupby", "sort_index", "astype", "tolist", "values", "data", "_data", "pint", "value", "magnitude", "m",
           "iloc", "loc", "T", "reindex", "fillna", "iat", "at"}
ZERO_RAW = {"index", "unit", "units", "label", "source", "dtypes", "columns", "name", "id", "empty", "tz", "tzinfo",
            "hour", "dimensionality"}


# functions whose result is external data or a stdlib value: raw, depends on the arguments only
MODULES = {"np", "math", "pd", "pint_pandas", "pytz", "re", "pint", "numbers", "os", "json", "uuid"}


def deep_deps(v):
    """dependencies of a value including those of the elements of raw containers (dict/list literals)"""
    if v is None:
        return F()
    d = v.deps
    if v.k in ("list", "dict") and v.elem is not None:
        d = d | deep_deps(v.elem)
    return d


EXTERNAL_CALLS = {"call_boaviztapi": "packaged Boavizta data looked up by provider / instance type",
                  "timedelta": "datetime.timedelta", "datetime": "datetime.datetime"}


# ---------------------------------------------------------------------------------------------- degree algebra
def d_norm(d):
    if d is None:
        return None
    return {k: v for k, v in d.items() if v != 0}


def d_add(a, b):
    if a is None:
        return b
    if b is None:
        return a
    out = {}
    for k in set(a) | set(b):
        x, y = a.get(k, 0), b.get(k, 0)
        out[k] = x if x == y else TOP
    return d_norm(out)


def d_mul(a, b):
    if a is None or b is None:
        return None
    out = {}
    for k in set(a) | set(b):
        x, y = a.get(k, 0), b.get(k, 0)
        out[k] = TOP if TOP in (x, y) else x + y
    return d_norm(out)


def d_div(a, b):
    if a is None:
        return None
    if b is None:
        return {k: TOP for k in a}
    out = {}
    for k in set(a) | set(b):
        x, y = a.get(k, 0), b.get(k, 0)
        out[k] = TOP if TOP in (x, y) else x - y
    return d_norm(out)


def d_nl(a):
    """non-linear function of a"""
    if a is None:
        return None
    return {k: TOP for k in a}


def d_keys(a):
    return set(a) if a else set()


def ek_binop(op, l, r):
    """explainable kind of `l op r` ('?' = unknown)"""
    def kinds(v):
        if v.k == "E":
            return set(v.ek) or {"?"}
        if v.k == "none":
            return {"EMPTY"}
        return {"NUM"}
    out = set()
    for a in kinds(l):
        for b in kinds(r):
            if "?" in (a, b):
                out.add("?")
            elif "EHQ" in (a, b):
                out.add("EMPTY" if (isinstance(op, ast.Mult) and "EMPTY" in (a, b)) else "EHQ")
            elif "EQ" in (a, b):
                out.add("EMPTY" if (isinstance(op, (ast.Mult, ast.Div)) and "EMPTY" in (a, b)) else "EQ")
            elif "EMPTY" in (a, b):
                out.add("EMPTY")
            else:
                out.add("?")
    return F(out)


EK_METHOD = {"max": {"EHQ": "EQ"}, "sum": {"EHQ": "EQ"}, "mean": {"EHQ": "EQ"},
             "return_shifted_hourly_quantities": {"EHQ": "EHQ"}, "convert_to_utc": {"EHQ": "EHQ"}}


def ek_method(name, b, ea):
    ks = set(b.ek) or {"?"}
    if name == "np_compared_with":
        other = set(ea[0].ek) if ea else {"?"}
        out = set()
        for a in ks:
            for o in (other or {"?"}):
                out.add("?" if "?" in (a, o) else ("EMPTY" if a == o == "EMPTY" else "EHQ"))
        return F(out)
    m = EK_METHOD.get(name)
    if m is None:
        return F(ks)
    return F(m.get(k, k) for k in ks)


# ---------------------------------------------------------------------------------------------- abstract values
_DEG0 = object()


class V:
    __slots__ = ("k", "cls", "is_self", "elem", "const", "anc", "deps", "deg", "fresh", "label", "shares", "ek",
                 "meths", "node", "carrier", "recv", "alts", "pbind", "items", "fields", "kelem")

    def __init__(self, k, cls=None, is_self=False, elem=None, const=None, anc=F(), deps=F(), deg=_DEG0, fresh=True,
                 label=False, shares=F(), ek=F(), meths=None, node=None, carrier=None, recv=None, alts=None, pbind=None,
                 items=None, fields=None, kelem=None):
        # alts: per-branch alternatives ((anc, deps), ...) when the value was assigned on both arms of an if/else;
        # anc / deps are always their union (None = a single alternative)
        self.alts = alts
        self.pbind = pbind     # functools.partial: (positional values, keyword values) bound in advance
        self.items = items     # a tuple with components of different kinds (an element of zip / enumerate / items())
        self.fields = fields   # a record (namedtuple / dataclass instance): field name -> value; .const = its type name
        self.kelem = kelem     # a dict whose keys are model objects: what a key is (so that .items() / .keys() give objects)
        if deg is _DEG0:       # default: degree 0 in everything; an explicit None is bottom (zero / empty)
            deg = {}
        self.k = k
        self.cls = F(cls) if cls else F()
        self.is_self = is_self
        self.elem = elem
        self.const = const
        self.anc = F(anc)
        self.deps = F(deps)
        self.deg = deg
        self.fresh = fresh
        self.label = label
        self.shares = F(shares)
        self.ek = F(ek)
        self.meths = meths
        self.node = node
        self.carrier = carrier   # for raw: 'pint' (unit-carrying) | 'bare' | None
        self.recv = recv

    def clone(self, **kw):
        d = {s: getattr(self, s) for s in self.__slots__}
        d.update(kw)
        return V(**d)

    def __repr__(self):
        return f"V({self.k},{set(self.cls) or ''},anc={sorted(self.anc)},deps={sorted(self.deps)},deg={self.deg})"


class _Ctl(frozenset):
    """control-stack entry; .loop = True when it only lasts until the end of the current loop iteration"""
    loop = False
    brk = False
    empt = False      # the test only asks whether a value is the empty placeholder (isinstance(x, EmptyExplainableObject))


def _emptiness_test(t):
    if isinstance(t, ast.UnaryOp) and isinstance(t.op, ast.Not):
        return _emptiness_test(t.operand)
    if isinstance(t, ast.BoolOp):
        return all(_emptiness_test(v) for v in t.values)
    return isinstance(t, ast.Call) and isinstance(t.func, ast.Name) and t.func.id == "isinstance" and len(t.args) == 2 \
        and any(isinstance(x, ast.Name) and x.id == "EmptyExplainableObject" for x in ast.walk(t.args[1]))


class _Taint(set):
    loop = False
    brk = False


def raw(deps=F(), deg=_DEG0, const=None, carrier=None):
    return V("raw", deps=deps, deg=deg, const=const, carrier=carrier)


RAW0 = lambda: V("raw", deg={})  # a plain constant: degree 0 in everything


def join(vs):
    vs = [v for v in vs if v is not None]
    if not vs:
        return V("raw")
    if len(vs) == 1:
        return vs[0]
    ks = {v.k for v in vs}
    if ks == {"rec"} and len({v.const for v in vs}) == 1:
        names = []
        for v in vs:
            names += [n for n in (v.fields or {}) if n not in names]
        return V("rec", const=vs[0].const, deps=F().union(*[v.deps for v in vs]),
                 fields={n: join([v.fields[n] for v in vs if v.fields and n in v.fields]) for n in names})
    for pref in ("E", "obj", "list", "dict", "meth", "raw"):
        if pref in ks:
            k = pref
            break
    else:
        k = vs[0].k
    cls = set()
    for v in vs:
        cls |= set(v.cls)
    el = None
    if any(v.elem is not None for v in vs):
        el = join([v.elem for v in vs if v.elem is not None])
    deg = None
    first = True
    for v in vs:
        if v.k in ("E", "raw"):
            deg = v.deg if first else d_add(deg, v.deg)
            first = False
    meths = None
    if k == "meth":
        meths = []
        for v in vs:
            meths += v.meths or []
    out = V(k, cls, all(v.is_self for v in vs if v.k == "obj") and "obj" in ks, el,
            anc=F().union(*[v.anc for v in vs]), deps=F().union(*[v.deps for v in vs]), deg=deg,
            fresh=all(v.fresh for v in vs), label=all(v.label for v in vs if v.k == "E"),
            shares=F().union(*[v.shares for v in vs]), ek=F().union(*[v.ek for v in vs]), meths=meths)
    if k == "dict":
        # (a dict that is still empty — `d = {}` before the loop that fills it — says nothing about the keys)
        filled = [v for v in vs if v.k == "dict" and not (v.elem is None and v.kelem is None and not v.meths)]
        if filled and all(v.kelem is not None for v in filled) and all(v.k == "dict" for v in vs):
            out.kelem = join([v.kelem for v in filled])
        if all(v.k == "dict" and v.const == "defaultdict" for v in vs):
            # a defaultdict(list) on several paths: its keys are the object keys met on any of them
            out.const = "defaultdict"
            with_k = [v.kelem for v in vs if v.kelem is not None]
            out.kelem = join(with_k) if with_k else None
    if JOIN_KEEPS_ALTS and k == "E" and all(v.k == "E" for v in vs):
        # "one of these values" (outcomes of a dispatch over methods / receiver classes): the alternatives stay apart,
        # so that a parent recorded by one outcome does not hide its absence in another
        alts = ()
        # a parentless empty placeholder (`EmptyExplainableObject()` returned when there is nothing to compute) is not an
        # alternative of its own: as before, it is only required that the recorded ancestors of the value as a whole
        # cover what decided that there was nothing to compute
        real = [v for v in vs if not (set(v.ek or ()) == {"EMPTY"} and not v.anc and not _value_decided(v))] or vs
        for v in real:
            alts += alts_of(v)
        alts = tuple(dict.fromkeys(alts))
        out.alts = alts if 1 < len(alts) <= 16 else None
    return out


JOIN_KEEPS_ALTS = True


def _value_decided(v):
    """the placeholder was chosen by looking at an explainable *value* (a duration that is zero, a series that is empty):
    that value decides the result and must be among its ancestors, on this path too"""
    # (a test for the empty placeholder itself — `isinstance(x, EmptyExplainableObject)` — is not such a look: an empty
    # operand has no value to propagate, and the placeholder only exists until the first computation)
    return any(len(r) == 4 and r[3] == "c" for r in v.deps)


MAX_ALTS = 16


def alts_of(v):
    return v.alts if v.alts else ((v.anc, v.deps),)


def _norm_alts(alts):
    alts = tuple(dict.fromkeys(alts))
    if len(alts) > MAX_ALTS:
        return None
    return alts if len(alts) > 1 else None


def combine_alts(vs, extra_deps=F(), extra_anc=F(), anc_from=None):
    """alternatives of a value computed from the operands `vs`: the product of their alternatives (bounded).
    `anc_from`: operands whose ancestors are recorded (default: all of them)."""
    alts = [(F(extra_anc), F(extra_deps))]
    for v in vs:
        if v is None:
            continue
        rec = anc_from is None or any(v is x for x in anc_from)
        new = []
        for (a1, d1) in alts:
            for (a2, d2) in alts_of(v):
                new.append((a1 | (a2 if rec else F()), d1 | d2))
        new = list(dict.fromkeys(new))
        if len(new) > MAX_ALTS:
            new = [(F().union(*[a for a, _ in new]), F().union(*[d for _, d in new]))]
        alts = new
    return _norm_alts(alts)


def set_alts(v, alts):
    """install alternatives on v (anc/deps stay the unions computed by the caller)"""
    v.alts = alts
    return v


def add_deps(v, extra):
    if not extra or v is None:
        return v
    alts = tuple((a, d | extra) for a, d in v.alts) if v.alts else None
    return v.clone(deps=v.deps | extra, alts=alts)


def join_alts(a, b):
    """merge of a variable assigned on both arms of an if/else: keep the arms apart (bounded)"""
    j = join([a, b])
    if a.k == "E" and b.k == "E":
        j.alts = _norm_alts(alts_of(a) + alts_of(b))
    return j


# ---------------------------------------------------------------------------------------------- context
@dataclass
class Site:
    kind: str          # 'ctor' | 'write'
    node: ast.AST
    func: str          # qualified function in which the site is
    path: str
    target: str = None
    ctor: str = None
    parents: F = F()       # anc recorded
    valdeps: F = F()       # data deps of the value (ctor) / all deps (write)
    ctl: F = F()
    value: V = None
    has_parents: bool = True
    alts: tuple = None


class Cx:
    def __init__(self, cls, attr):
        self.cls, self.attr = cls, attr
        self.ctl = []            # stack of frozensets of refs
        self.taint = []          # stack of sets of degree keys under a non scale-invariant test
        self.sites = []
        self.writes = {}         # attr -> [Site]
        self.foreign_writes = [] # (node, func, text)
        self.links = set()       # (class, link attr) forward; (class, '<containers>') backward
        self.reads = set()       # refs
        self.inplace = []        # (node, func, method, receiver V)
        self.unitconv = []       # (node, func, method, V converted to another unit in place)
        self.frame_stores = []   # (node, func, receiver V)
        self.calls = []          # (func qualname) inlined
        self.unknown = []
        self.stack = []
        self.fn = []             # stack of (path, qualname)
        self.in_loop = 0
        self.loop_exits = []
        self.own_written = {}    # attr -> the fresh per-usage-pattern dict this rule has just stored into self.<attr>

    def ctldeps(self):
        """control context as references tagged 'c' (4-tuples), so that data and control dependencies stay apart:
        construction sites are checked on data dependencies only, write sites on both"""
        if not self.ctl:
            return F()
        return F((r[0], r[1], r[2], "e" if getattr(s, "empt", False) else "c") for s in self.ctl for r in s)

    def tainted(self):
        out = set()
        for t in self.taint:
            out |= t
        return out

    def where(self):
        return self.fn[-1] if self.fn else ("", "")


def _is_generator_body(body):
    st = list(body)
    while st:
        n = st.pop()
        if isinstance(n, (ast.Yield, ast.YieldFrom)):
            return True
        if isinstance(n, (ast.FunctionDef, ast.AsyncFunctionDef, ast.Lambda, ast.ClassDef)):
            continue
        st.extend(ast.iter_child_nodes(n))
    return False


class Interp:
    """Interprets one context (concrete class C, entry function) of the program model."""

    def __init__(self, pm, free_functions=("compute_nb_avg_hourly_occurrences", "default_request_duration",
                                           "create_hourly_usage_df_from_list")):
        self.pm = pm
        self.free = {n: pm.functions[n] for n in free_functions if n in pm.functions}
        self.kind_hook = None    # (class, calculated attr) -> frozenset of explainable kinds, supplied by the engine
        self.deg_hook = None     # (class, attr) -> degree in the driver under study ({} = 0, {'*': k}, None = bottom)

    # -------------------------------------------------------------------------------------------- entry points
    def run_method(self, cls, name, cx=None, args=(), kwargs=None):
        owner, fn = self.pm.find_method(cls, name)
        if fn is None:
            raise AnalysisError(f"{cls}.{name} not found")
        cx = cx or Cx(cls, name)
        out = self.inline(cls, owner, fn, True, list(args), kwargs or {}, cx, None)
        return out, cx

    def run_rule(self, cls, attr):
        cx = Cx(cls, attr)
        out, cx = self.run_method(cls, "update_" + attr, cx)
        return cx

    # -------------------------------------------------------------------------------------------- helpers
    def record_types(self):
        """plain record types of the package: `X = namedtuple("X", [...])` at module level and `@dataclass class X` outside
        the model / explainable hierarchies -> name: (field names in order, defaults {name: expr}, ClassDef or None)"""
        if getattr(self, "_records", None) is None:
            recs = {}
            for m, (rel, tree, _) in self.pm.modules.items():
                for st in tree.body:
                    if isinstance(st, ast.Assign) and isinstance(st.value, ast.Call) and norm(st.value.func) in (
                            "namedtuple", "collections.namedtuple") and len(st.value.args) >= 2 \
                            and isinstance(st.targets[0], ast.Name):
                        spec = st.value.args[1]
                        if isinstance(spec, (ast.List, ast.Tuple)) and all(isinstance(x, ast.Constant) for x in spec.elts):
                            recs[st.targets[0].id] = ([x.value for x in spec.elts], {}, None)
                        elif isinstance(spec, ast.Constant) and isinstance(spec.value, str):
                            recs[st.targets[0].id] = (spec.value.replace(",", " ").split(), {}, None)
                    if isinstance(st, ast.ClassDef) and (any("dataclass" in norm(d) for d in st.decorator_list) or any(
                            norm(b_).split(".")[-1] == "NamedTuple" for b_ in st.bases)) \
                            and st.name not in self.pm.classes_in_hierarchies():
                        names, dflts = [], {}
                        for b in st.body:
                            if isinstance(b, ast.AnnAssign) and isinstance(b.target, ast.Name):
                                names.append(b.target.id)
                                if b.value is not None:
                                    dflts[b.target.id] = b.value
                        recs[st.name] = (names, dflts, st)
            self._records = recs
        return self._records

    def _classifier(self, knode, env):
        """class name -> constant, for a key function that answers by class alone: a module-level function of the package
        or a static method of a plain record class (`cls.kind_of`, `ServerUsers.kind_of`) whose body is a chain of
        `if isinstance(<param>, K): return "<constant>"` and a final `return "<constant>"`. None for anything else."""
        fn = None
        if isinstance(knode, ast.Name):
            if getattr(self, "_pkg_fn", None) is None:
                self._pkg_fn = self.pm.package_function_finder()
            fn = self._pkg_fn(knode.id)
        elif isinstance(knode, ast.Attribute) and isinstance(knode.value, ast.Name):
            owner = knode.value.id
            if owner in env and env[owner].k == "class" and len(env[owner].cls) == 1:
                owner = next(iter(env[owner].cls))
            rc = self.record_types().get(owner, (0, 0, None))[2]
            if rc is not None:
                fn = next((x for x in rc.body if isinstance(x, ast.FunctionDef) and x.name == knode.attr and is_static(x)), None)
        if fn is None or len(fn.args.args) != 1:
            return None
        p_ = fn.args.args[0].arg
        chain, default = [], None
        body = [b for b in fn.body if not isinstance(b, (ast.Import, ast.ImportFrom))
                and not (isinstance(b, ast.Expr) and isinstance(b.value, ast.Constant))]
        for i, b in enumerate(body):
            if isinstance(b, ast.If) and not b.orelse and len(b.body) == 1 and isinstance(b.body[0], ast.Return) \
                    and isinstance(b.body[0].value, ast.Constant) and isinstance(b.body[0].value.value, str) \
                    and isinstance(b.test, ast.Call) and isinstance(b.test.func, ast.Name) and b.test.func.id == "isinstance" \
                    and len(b.test.args) == 2 and isinstance(b.test.args[0], ast.Name) and b.test.args[0].id == p_:
                ks = b.test.args[1].elts if isinstance(b.test.args[1], ast.Tuple) else [b.test.args[1]]
                if not all(isinstance(k_, ast.Name) and k_.id in self.pm.classes for k_ in ks):
                    return None
                chain.append(([k_.id for k_ in ks], b.body[0].value.value))
            elif isinstance(b, ast.Return) and i == len(body) - 1 and isinstance(b.value, ast.Constant) \
                    and isinstance(b.value.value, str):
                default = b.value.value
            else:
                return None
        if not chain or default is None:
            return None

        def kind(cn):
            for ks, const in chain:
                if any(self.pm.issub(cn, k_) for k_ in ks):
                    return const
            return default
        return kind

    def _name_pattern(self, e, recv, env):
        """regular expression of the attribute names an expression can denote, when it is spelled out enough: an f-string
        with a constant part of at least 8 characters, or an entry `self.TABLE[…]` / `TABLE.get(…)` of a class-level dict
        (literal or comprehension) whose values all are such f-strings / constants. None otherwise."""
        import re as _re

        def of_value(v):
            if isinstance(v, ast.Constant) and isinstance(v.value, str):
                return _re.escape(v.value)
            if isinstance(v, ast.JoinedStr):
                parts, const_len = [], 0
                for p_ in v.values:
                    if isinstance(p_, ast.Constant):
                        parts.append(_re.escape(str(p_.value)))
                        const_len += len(str(p_.value))
                    else:
                        parts.append(r"\w*")
                return "".join(parts) if const_len >= 8 else None
            return None
        if isinstance(e, ast.JoinedStr):
            return of_value(e)
        tab = None
        if isinstance(e, ast.Subscript):
            tab = e.value
        elif isinstance(e, ast.Call) and isinstance(e.func, ast.Attribute) and e.func.attr == "get" and len(e.args) == 1:
            tab = e.func.value
        if isinstance(tab, ast.Attribute) and isinstance(tab.value, ast.Name) and tab.value.id in ("self", "cls") \
                and recv is not None and recv.k == "obj":
            pats = set()
            for cn in sorted(recv.cls):
                if cn not in self.pm.classes:
                    return None
                _, t = self.pm._class_const(cn, tab.attr)
                vals = None
                if isinstance(t, ast.Dict):
                    vals = list(t.values)
                elif isinstance(t, ast.DictComp):
                    vals = [t.value]
                if not vals:
                    return None
                for v in vals:
                    p_ = of_value(v)
                    if p_ is None:
                        return None
                    pats.add(p_)
            return "|".join(f"(?:{p_})" for p_ in sorted(pats)) if pats else None
        return None

    def const_test(self, t, env):
        """True / False when the test compares two strings that are constants on this path; else None"""
        if isinstance(t, ast.Compare) and len(t.ops) == 1 and isinstance(t.ops[0], (ast.Eq, ast.NotEq, ast.In, ast.NotIn)):
            l = self.cstr(t.left, env)
            if l is None:
                return None
            r = t.comparators[0]
            if isinstance(t.ops[0], (ast.Eq, ast.NotEq)):
                rv = self.cstr(r, env)
                if rv is None:
                    return None
                return (l == rv) == isinstance(t.ops[0], ast.Eq)
            if isinstance(r, (ast.Tuple, ast.List, ast.Set)):
                vals = [self.cstr(x, env) for x in r.elts]
                if any(v is None for v in vals):
                    return None
                return (l in vals) == isinstance(t.ops[0], ast.In)
        if isinstance(t, ast.UnaryOp) and isinstance(t.op, ast.Not):
            c = self.const_test(t.operand, env)
            return None if c is None else not c
        # `x is None` / `x is not None` for a name bound to a constant of a literal table row (a string, or None)
        if isinstance(t, ast.Compare) and len(t.ops) == 1 and isinstance(t.ops[0], (ast.Is, ast.IsNot)) \
                and isinstance(t.comparators[0], ast.Constant) and t.comparators[0].value is None \
                and isinstance(t.left, ast.Name) and env.get(t.left.id) is not None:
            v = env[t.left.id]
            if v.k == "none":
                return isinstance(t.ops[0], ast.Is)
            if v.k == "raw" and isinstance(v.const, str):
                return isinstance(t.ops[0], ast.IsNot)
        return None

    def cstr(self, e, env):
        if isinstance(e, ast.Constant) and isinstance(e.value, str):
            return e.value
        if isinstance(e, ast.Name) and env.get(e.id) is not None and env[e.id].const is not None:
            return env[e.id].const
        if isinstance(e, ast.JoinedStr):
            out = ""
            for v in e.values:
                if isinstance(v, ast.Constant):
                    out += str(v.value)
                else:
                    c = self.cstr(v.value, env)
                    if c is None:
                        return None
                    out += c
            return out
        return None

    def expand(self, clsset):
        """declared classes -> concrete public classes (keeps a class with no public subclass as is)"""
        out = []
        for c in sorted(clsset):
            ps = self.pm.pub(c)
            for q in (ps or [c]):
                if q not in out:
                    out.append(q)
        return out

    def obj(self, classes, is_self=False):
        return V("obj", self.expand(classes) if not is_self else classes, is_self)

    def taintdeg(self, v, cx):
        t = cx.tainted()
        if not t or v.k not in ("E", "raw") or v.deg is None:
            return v
        d = dict(v.deg)
        ch = False
        for k in t:
            if d.get(k, 0) != 0 and d.get(k) != TOP:
                d[k] = TOP
                ch = True
        return v.clone(deg=d) if ch else v

    # -------------------------------------------------------------------------------------------- attribute access
    def attr_on(self, b, attr, cx, node=None):
        outs = []
        pm = self.pm
        for cn in sorted(b.cls):
            if cn not in pm.classes:
                cx.unknown.append(f"attribute {attr} on unknown class {cn}")
                continue
            owner, m = pm.find_method(cn, attr)
            if m is not None and is_property(m):
                if attr == "modeling_obj_containers":
                    cx.links.add((cn, "<containers>"))
                    cs = pm.containers(cn)
                    outs.append(V("list", elem=V("obj", cs, False) if cs else None))
                elif attr in ("calculated_attributes", "attributes_that_shouldnt_trigger_update_logic",
                              "efootprint_class", "class_as_simple_str"):
                    outs.append(RAW0())
                else:
                    outs.append(self.inline(cn, owner, m, b.is_self, [], {}, cx, node))
                continue
            if m is not None:
                outs.append(V("meth", meths=[(cn, owner, m, b.is_self)]))
                continue
            ai = pm.init_attrs(cn).get(attr)
            if attr == "contextual_modeling_obj_containers":
                # the link wrappers that point to the object: each names one of the objects that hold it (or None once it
                # is detached) — what `modeling_obj_containers` gathers
                cx.links.add((cn, "<containers>"))
                cs = pm.containers(cn)
                w = V("rec", const="<link wrapper>", fields={
                    "modeling_obj_container": V("obj", cs, False) if cs else V("none"),
                    "attr_name_in_mod_obj_container": RAW0()})
                outs.append(V("list", elem=w))
                continue
            if ai is None:
                kc, cval = pm._class_const(cn, attr)
                if attr in PLAIN_MODEL_ATTRS:
                    outs.append(RAW0())
                elif cval is not None:
                    # a class-level table: names of functions of the class body stand for those functions (unbound:
                    # they are called with the object as explicit first argument)
                    cenv = {}
                    for f_ in pm.own_methods(kc):
                        cenv[f_.name] = V("meth", meths=[(cn, kc, f_, b.is_self)], const="<unbound>")
                    outs.append(self.ev(cval, cenv, cx))
                else:
                    cx.unknown.append(f"attribute {cn}.{attr} not found")
                continue
            if ai.kind == "link":
                cx.links.add((cn, attr))
                tg = pm.link_targets(cn, attr)
                o = V("obj", tg, False)
                outs.append(o if ai.link_kind == "one" else V("list", elem=o))
            elif ai.kind in ("input", "placeholder") or attr in pm.calc(cn):
                ref = (cn, attr, b.is_self)
                cx.reads.add(ref)
                if cn in pm.ALL and attr in pm.calc(cn):
                    ek = self.kind_hook(cn, attr) if self.kind_hook else F()
                elif ai.kind == "placeholder":
                    ek = F({"EMPTY"})
                else:
                    ek = ai.valkinds
                deg = self.deg_hook(cn, attr) if self.deg_hook else {(cn, attr): 1}
                outs.append(V("E", anc={ref}, deps={ref}, deg=deg, fresh=False, label=True,
                              shares={ref}, ek=ek))
            else:
                outs.append(RAW0())
        return join(outs) if outs else V("raw")

    # -------------------------------------------------------------------------------------------- expressions
    def ev(self, e, env, cx):
        if e is None:
            return V("raw")
        m = getattr(self, "ev_" + type(e).__name__, None)
        if m is None:
            subs = [self.ev(x, env, cx) for x in ast.iter_child_nodes(e) if isinstance(x, ast.expr)]
            return raw(F().union(*[s.deps for s in subs]) if subs else F(), deg={})
        return m(e, env, cx)

    def ev_Constant(self, e, env, cx):
        if e.value is None:
            return V("none", deg=None)
        return raw(const=e.value if isinstance(e.value, str) else None, deg={})

    def get_path(self, v, path, cx, node):
        """operator.attrgetter("a.b") applied to v"""
        for part in path.split("."):
            if v.k != "obj":
                return raw(v.deps, deg={})
            v = self.attr_on(v, part, cx, node)
        return v

    def module_table(self, name, cx):
        """a module-level table (tuple / list / dict literal bound once to an ALL-CAPS name somewhere in the package) that
        holds functions — lambdas, names of module-level functions: evaluated where it is read. None if there is none."""
        memo = self.__dict__.setdefault("_module_tables", {})
        if name not in memo:
            memo[name] = None
            if name.isupper() or "_" in name and name.upper() == name:
                hits = []
                for m, (rel, tree, _) in self.pm.modules.items():
                    for st in tree.body:
                        if isinstance(st, ast.Assign) and len(st.targets) == 1 and isinstance(st.targets[0], ast.Name) \
                                and st.targets[0].id == name and isinstance(st.value, (ast.Tuple, ast.List, ast.Dict)):
                            hits.append((m, tree, st.value))
                if len(hits) == 1:
                    memo[name] = hits[0]
        hit = memo[name]
        if hit is None:
            return None
        m, tree, value = hit
        menv = {}
        for st in tree.body:
            if isinstance(st, ast.FunctionDef):
                menv[st.name] = V("lambda", node=st, const={}, deg={})
        return self.ev(value, menv, cx)

    def ev_Name(self, e, env, cx):
        if e.id in env:
            return env[e.id]
        if e.id in self.pm.classes or self.record_types().get(e.id, (0, 0, None))[2] is not None:
            return V("class", cls={e.id})
        t = self.module_table(e.id, cx)
        if t is not None:
            return t
        # a module-level function of the package handed over as a value (a predicate, a key function): a closure with no
        # captured variables, run where it is called
        if getattr(self, "_pkg_fn", None) is None:
            self._pkg_fn = self.pm.package_function_finder()
        h = self._pkg_fn(e.id)
        if h is not None:
            return V("lambda", node=h, const={}, deg={})
        return raw(deg={})

    def ev_JoinedStr(self, e, env, cx):
        deps = F()
        for v in e.values:
            if isinstance(v, ast.FormattedValue):
                deps |= self.ev(v.value, env, cx).deps
        return raw(deps, deg={}, const=self.cstr(e, env))

    def ev_Attribute(self, e, env, cx):
        if isinstance(e.value, ast.Name) and e.value.id == "operator" and "operator" not in env:
            return V("opfn", const=e.attr)      # operator.ge / operator.add …: a pure function of its arguments
        if isinstance(e.value, ast.Call) and isinstance(e.value.func, ast.Name) and e.value.func.id == "super":
            slf = env.get("self")
            cur = cx.stack[-1] if cx.stack else None
            if slf is not None and slf.k == "obj" and cur and len(cur) == 3:
                cn = sorted(slf.cls)[0]
                owner, m = self.pm.find_method(cn, e.attr, after=cur[1])
                if m is not None and is_property(m):
                    return self.inline(cn, owner, m, slf.is_self, [], {}, cx, e)
                if m is not None:
                    return V("meth", meths=[(cn, owner, m, slf.is_self)])
            cx.unknown.append(f"super().{e.attr} unresolved in {cx.where()[1]}")
            return raw(deg={})
        b = self.ev(e.value, env, cx)
        if b.k == "obj" and b.is_self and e.attr in cx.own_written and isinstance(e.value, ast.Name) and e.value.id == "self":
            return cx.own_written[e.attr]
        if b.k == "obj":
            return self.attr_on(b, e.attr, cx, e)
        if b.k == "E":
            if e.attr in E_META_ATTRS:
                return raw(deg={})
            if e.attr in ("unit", "units"):
                return raw(deg={})
            if e.attr in E_RAW_ATTRS:
                return V("raw", deps=b.deps, deg=b.deg, shares=b.shares, fresh=b.fresh,
                         carrier="bare" if e.attr in ("magnitude", "m", "value_as_float_list") else "pint", recv=b)
            return V("meth", meths=None, recv=b, const=e.attr)
        if b.k == "raw":
            if e.attr in ZERO_RAW:
                return raw(b.deps if e.attr in ("index", "empty") else F(), deg={})
            return V("raw", deps=b.deps, deg=b.deg if e.attr in LIN_RAW else d_nl(b.deg), shares=b.shares,
                     fresh=b.fresh, carrier="bare" if e.attr in ("magnitude", "m", "_data") else b.carrier, recv=b.recv)
        if b.k == "rec":
            if b.fields and e.attr in b.fields:
                return add_deps(b.fields[e.attr], b.deps)
            rcls = self.record_types().get(b.const, (0, 0, None))[2]
            pm_ = next((x for x in rcls.body if isinstance(x, ast.FunctionDef) and x.name == e.attr
                        and is_property(x)), None) if rcls is not None else None
            if pm_ is not None:
                out = self.run_record_method(b.const, pm_, b, [], {}, cx)
                if out is not None:
                    return out
            return V("meth", recv=b, const=e.attr)
        if b.k in ("list", "dict"):
            return V("meth", recv=b, const=e.attr)
        return raw(b.deps, deg={})

    def ev_BinOp(self, e, env, cx):
        l, r = self.ev(e.left, env, cx), self.ev(e.right, env, cx)
        return self.binop(e.op, l, r, cx, e)

    def binop(self, op, l, r, cx, node):
        if l.k == "list" or r.k == "list":
            return V("list", elem=join([x.elem for x in (l, r) if x.elem is not None]) if (l.elem or r.elem) else None)
        if isinstance(op, (ast.Add, ast.Sub)):
            d = d_add(l.deg if l.k in ("E", "raw") else None, r.deg if r.k in ("E", "raw") else None)
        elif isinstance(op, ast.Mult):
            d = d_mul(l.deg if l.k != "none" else None, r.deg if r.k != "none" else None)
        elif isinstance(op, ast.Div):
            d = d_div(l.deg, r.deg)
        else:
            d = d_nl(d_add(l.deg, r.deg))
        if l.k == "E" or r.k == "E":
            v = V("E", anc=l.anc | r.anc, deps=l.deps | r.deps | cx.ctldeps(), deg=d, fresh=True, label=False,
                  ek=ek_binop(op, l, r), alts=combine_alts([l, r], cx.ctldeps()))
        else:
            v = V("raw", deps=l.deps | r.deps, deg=d, carrier=l.carrier or r.carrier)
        return self.taintdeg(v, cx)

    def ev_UnaryOp(self, e, env, cx):
        v = self.ev(e.operand, env, cx)
        if isinstance(e.op, (ast.USub, ast.UAdd)):
            if v.k == "E":
                return V("E", anc=v.anc, deps=v.deps | cx.ctldeps(), deg=v.deg, ek=v.ek,
                         alts=combine_alts([v], cx.ctldeps()))
            return V("raw", deps=v.deps, deg=v.deg, carrier=v.carrier)
        return raw(v.deps, deg={})

    def ev_Compare(self, e, env, cx):
        if len(e.ops) == 1 and isinstance(e.ops[0], (ast.Is, ast.IsNot)):
            self.ev(e.left, env, cx)
            self.ev(e.comparators[0], env, cx)
            return raw(deg={})      # identity tests carry no value dependency
        subs = [self.ev(e.left, env, cx)] + [self.ev(c, env, cx) for c in e.comparators]
        return raw(F().union(*[s.deps for s in subs]), deg={})

    def ev_BoolOp(self, e, env, cx):
        subs = [self.ev(x, env, cx) for x in e.values]
        j = join(subs)
        return j.clone(deps=F().union(*[s.deps for s in subs]))

    def ev_IfExp(self, e, env, cx):
        t = self.ev(e.test, env, cx)
        cx.ctl.append(t.deps)
        j = join([self.ev(e.body, env, cx), self.ev(e.orelse, env, cx)])
        cx.ctl.pop()
        return add_deps(j, t.deps)

    def ev_Subscript(self, e, env, cx):
        b = self.ev(e.value, env, cx)
        i = self.ev(e.slice, env, cx)
        if b.k == "dict" and b.meths is not None:
            return V("meth", meths=b.meths, deps=b.deps | i.deps)
        if b.k == "dict" and b.const == "defaultdict" and b.elem is not None and b.elem.k == "list":
            # d[key] of a defaultdict(list): the list kept under that key, created on first access — mutating what this
            # returns (append / extend) fills the dict; a model object used as key becomes one of its keys
            if i.k == "obj":
                b.kelem = join([b.kelem, i]) if b.kelem is not None else i
            b.deps = b.deps | i.deps
            return b.elem
        if b.k == "dict" and b.fields is not None and self.cstr(e.slice, env) is not None and self.cstr(e.slice, env) in b.fields:
            return add_deps(b.fields[self.cstr(e.slice, env)], b.deps)
        if b.k in ("list", "dict"):
            if b.elem is not None:
                return add_deps(b.elem, i.deps)
            return V("raw", deps=i.deps)
        if b.k == "E":
            return add_deps(b, i.deps).clone(ek=b.ek - {"EDICT"})   # entry of a per-usage-pattern dict attribute
        if b.k == "raw":
            return V("raw", deps=b.deps | i.deps, deg=b.deg, shares=b.shares, fresh=b.fresh, carrier=b.carrier,
                     recv=b.recv)
        if b.k == "meth":   # x.iloc[...] and friends on raw / E
            rb = b.recv
            if rb is not None and rb.k in ("raw", "E"):
                return V("raw", deps=rb.deps | i.deps, deg=rb.deg, shares=rb.shares, carrier=rb.carrier, recv=rb.recv)
        return raw(b.deps | i.deps, deg={})

    def ev_Slice(self, e, env, cx):
        subs = [self.ev(x, env, cx) for x in (e.lower, e.upper, e.step) if x is not None]
        return raw(F().union(*[s.deps for s in subs]) if subs else F(), deg={})

    def _seq(self, e, env, cx):
        vs = [self.ev(x, env, cx) for x in e.elts]
        exact = vs if (0 < len(vs) <= 8 and not any(isinstance(x, ast.Starred) for x in e.elts)) else None
        return V("list", elem=join(vs) if vs else None, items=exact)

    ev_List = ev_Tuple = ev_Set = _seq

    def ev_Starred(self, e, env, cx):
        return self.ev(e.value, env, cx)

    def ev_Dict(self, e, env, cx):
        ks = [self.ev(k, env, cx) for k in e.keys if k is not None]
        kd = F().union(*[k.deps for k in ks]) if ks else F()
        vs = [self.ev(v, env, cx) for v in e.values]
        if vs and all(v.k == "meth" and v.meths for v in vs):
            ms = []
            for v in vs:
                ms += v.meths
            return V("dict", meths=ms, deps=kd)
        # a literal table with constant string keys keeps its entries one by one (TABLE["name"] is that entry)
        exact = {k_.value: v_ for k_, v_ in zip(e.keys, vs)} if e.keys and len(e.keys) == len(vs) and all(
            isinstance(k_, ast.Constant) and isinstance(k_.value, str) for k_ in e.keys) else None
        d = V("dict", elem=join(vs) if vs else None, deps=kd,
              kelem=join(ks) if ks and all(k.k == "obj" for k in ks) else None, fields=exact)
        return d

    def _comp_env(self, generators, env, cx):
        env2 = dict(env)
        for g in generators:
            it = self.ev(g.iter, env2, cx)
            self.bind(g.target, self.elem_of(it), env2, cx)
            for c in g.ifs:
                if self._isinstance_narrow(c, env2):
                    continue
                t = self.ev(c, env2, cx)
                cx.ctl.append(t.deps)   # popped by caller
                self._pushed += 1
        return env2

    def _isinstance_narrow(self, c, env):
        if isinstance(c, ast.Call) and isinstance(c.func, ast.Name) and c.func.id == "isinstance" \
                and isinstance(c.args[0], ast.Name) and isinstance(c.args[1], ast.Name) \
                and env.get(c.args[0].id) is not None and env[c.args[0].id].k == "obj":
            v = env[c.args[0].id]
            K = c.args[1].id
            if K in self.pm.classes:
                new = [k for k in v.cls if self.pm.issub(k, K)]
                env[c.args[0].id] = V("obj", new, False)
                return True
        return False

    def elem_of(self, it):
        if it.k in ("list",) and it.elem is not None:
            return add_deps(it.elem, it.deps)
        if it.k == "dict":
            if it.kelem is not None:
                return add_deps(it.kelem, it.deps)      # iterating a dict keyed by model objects: those objects
            return raw(it.deps, deg={})
        if it.k == "list":
            return V("raw", deps=it.deps)
        return V("raw", deps=it.deps, deg=it.deg)

    def _table_rows(self, e, env, cx):
        """rows of the literal table a comprehension ranges over with its first generator (a tuple of tuples of
        constants / functions), else None: the comprehension is then evaluated row by row, each row with its own values"""
        g = e.generators[0]
        if g.ifs or len(e.generators) != 1:
            return None
        it = self.ev(g.iter, env, cx)
        if it.k == "list" and it.items and (not isinstance(g.target, ast.Name)
                                            or all(x.k in ("list", "meth", "rec", "lambda") for x in it.items)):
            return it
        return None

    def ev_ListComp(self, e, env, cx):
        rows = self._table_rows(e, env, cx)
        if rows is not None:
            outs = []
            for row in rows.items:
                env2 = dict(env)
                self.bind(e.generators[0].target, add_deps(row, rows.deps), env2, cx)
                outs.append(self.ev(e.elt, env2, cx))
            return V("list", elem=join(outs), items=outs if len(outs) <= 8 else None)
        saved_pushed, self._pushed = getattr(self, "_pushed", 0), 0     # (comprehensions nest: each counts its own)
        env2 = self._comp_env(e.generators, env, cx)
        pushed, self._pushed = self._pushed, saved_pushed
        el = self.ev(e.elt, env2, cx)
        el = add_deps(el, cx.ctldeps()) if pushed else el
        for _ in range(pushed):
            cx.ctl.pop()
        return V("list", elem=el)

    ev_GeneratorExp = ev_SetComp = ev_ListComp

    def ev_DictComp(self, e, env, cx):
        rows = self._table_rows(e, env, cx)
        if rows is not None:
            ks, vs = [], []
            for row in rows.items:
                env2 = dict(env)
                self.bind(e.generators[0].target, add_deps(row, rows.deps), env2, cx)
                ks.append(self.ev(e.key, env2, cx))
                vs.append(self.ev(e.value, env2, cx))
            exact = {k.const: v for k, v in zip(ks, vs)} if ks and all(
                k.k == "raw" and isinstance(k.const, str) for k in ks) and len({k.const for k in ks}) == len(ks) else None
            return V("dict", elem=join(vs), deps=F().union(*[k.deps for k in ks]),
                     kelem=join(ks) if ks and all(k.k == "obj" for k in ks) else None, fields=exact)
        saved_pushed, self._pushed = getattr(self, "_pushed", 0), 0     # (comprehensions nest: each counts its own)
        env2 = self._comp_env(e.generators, env, cx)
        pushed, self._pushed = self._pushed, saved_pushed
        k = self.ev(e.key, env2, cx)
        v = self.ev(e.value, env2, cx)
        for _ in range(pushed):
            cx.ctl.pop()
        return V("dict", elem=v, deps=k.deps, kelem=k if k.k == "obj" else None)

    def _copy_keeps_parent(self, kind):
        """does copy.copy() of an explainable value of this kind keep the original as recorded parent?"""
        memo = self.__dict__.setdefault("_copy_memo", {})
        if kind in memo:
            return memo[kind]
        cls = {"EQ": "ExplainableQuantity", "EHQ": "ExplainableHourlyQuantities", "EMPTY": "EmptyExplainableObject",
               "EOBJ": "ExplainableObject"}.get(kind)
        keeps = False
        if cls in self.pm.classes:
            owner, m = self.pm.find_method(cls, "__copy__")
            if m is not None:
                keeps = any(isinstance(k, ast.keyword) and k.arg in ("left_parent", "right_parent") and norm(k.value) == "self"
                            for k in ast.walk(m))
        elif cls is None:
            keeps = all(self._copy_keeps_parent(k) for k in ("EQ", "EHQ", "EMPTY"))
        memo[kind] = keeps
        return keeps

    def ev_Lambda(self, e, env, cx):
        # a closure: evaluated at its call sites (predicate / key helpers passed to an extracted method)
        return V("lambda", node=e, const=dict(env), deg={})

    def call_closure(self, fv, args, kw, cx):
        fn = fv.node
        key = ("<closure>", id(fn))
        if key in cx.stack or len(cx.stack) > MAX_DEPTH:
            return V("raw")
        env = dict(fv.const or {})
        env.update(self.bind_params(fn, args, kw, 0, cx))
        cx.stack.append(key)
        try:
            if isinstance(fn, ast.Lambda):
                return self.ev(fn.body, env, cx)
            saved_ctl, saved_taint = len(cx.ctl), len(cx.taint)
            out = self.run_fn(fn.body, env, cx)
            del cx.ctl[saved_ctl:]
            del cx.taint[saved_taint:]
            return out
        finally:
            cx.stack.pop()

    # -------------------------------------------------------------------------------------------- calls
    def ev_Call(self, e, env, cx):
        f = e.func
        args = [self.ev(a, env, cx) for a in e.args]
        kw = {k.arg: self.ev(k.value, env, cx) for k in e.keywords if k.arg}
        allv = args + list(kw.values())
        alld = F().union(*[deep_deps(a) for a in allv]) if allv else F()
        if isinstance(f, ast.Attribute) and isinstance(f.value, ast.Name) and f.value.id in ("operator", "itertools", "functools") \
                and f.value.id not in env:
            return self.call_name(f.attr, e, args, kw, alld, env, cx)
        if isinstance(f, ast.Attribute) and f.attr == "from_iterable" and norm(f.value) in ("chain", "itertools.chain") and args:
            a = args[0]
            el = self.elem_of(a) if a.k in ("list", "dict") else a
            inner = self.elem_of(el) if el.k in ("list", "dict") else el
            return V("list", elem=inner, deps=a.deps | el.deps)
        if isinstance(f, ast.Attribute) and isinstance(f.value, ast.Name) and f.value.id in MODULES \
                and f.value.id not in env:
            return self.call_module(f.value.id, f.attr, e, args, kw, alld, cx)
        if isinstance(f, ast.Name) and f.id in env and env[f.id].pbind:
            pa, pk = env[f.id].pbind
            args = list(pa) + args
            kw = dict(pk, **kw)
        if isinstance(f, ast.Name) and f.id in env and env[f.id].k == "lambda":
            return self.call_closure(env[f.id], args, kw, cx)
        if isinstance(f, ast.Name) and f.id in env and env[f.id].k == "opfn":
            return raw(alld | env[f.id].deps, deg={})
        if isinstance(f, ast.Name) and f.id in env and env[f.id].k in ("meth", "getter"):
            # a local that holds a (bound or unbound) method: a parameter, a row of a dispatch table
            fv = env[f.id]
            if fv.k == "getter" and args:
                return self.get_path(args[0], fv.const, cx, e) if args[0].k == "obj" else raw(alld, deg={})
            if fv.meths:
                a2 = args[1:] if (fv.const == "<unbound>" and args) else args
                return join([self.inline(cn, owner, m, is_self, a2, kw, cx, e) for cn, owner, m, is_self in fv.meths])
            if fv.recv is not None:
                return self.call_on_value(fv.recv, fv.const, e, args, kw, alld, env, cx)
        if isinstance(f, ast.Name) and f.id in env and env[f.id].k == "class" and env[f.id].cls \
                and all(c in self.record_types() for c in env[f.id].cls):
            # cls(...) in a classmethod of a record class (or a local naming it): the record is built
            return join([self.call_name(c, e, args, kw, alld, env, cx) for c in sorted(env[f.id].cls)])
        if isinstance(f, ast.Name):
            return self.call_name(f.id, e, args, kw, alld, env, cx)
        if isinstance(f, ast.Attribute) and isinstance(f.value, ast.Call) and isinstance(f.value.func, ast.Name) \
                and f.value.func.id == "super":
            slf = env.get("self")
            cur = cx.stack[-1] if cx.stack else None
            if slf is not None and slf.k == "obj" and cur:
                cn = sorted(slf.cls)[0]
                owner, m = self.pm.find_method(cn, f.attr, after=cur[1])
                if m is not None:
                    return self.inline(cn, owner, m, slf.is_self, args, kw, cx, e)
            return raw(alld, deg={})
        fv = self.ev(f, env, cx)
        if fv.pbind and not (isinstance(f, ast.Name) and f.id in env):
            pa, pk = fv.pbind
            args = list(pa) + args
            kw = dict(pk, **kw)
        if fv.k == "getter" and args:
            return self.get_path(args[0], fv.const, cx, e) if args[0].k == "obj" else raw(alld, deg={})
        if fv.k == "opfn":
            # an operator function taken from a table: comparisons give a plain truth value of their arguments
            return raw(alld | fv.deps, deg={})
        if fv.k == "lambda":          # (lambda x: …)(a), or a closure reached through an expression
            return self.call_closure(fv, args, kw, cx)
        if fv.k == "meth" and fv.meths and fv.const == "<unbound>" and args:
            args = args[1:]
        if fv.k == "meth" and fv.meths:
            if isinstance(f, ast.Subscript):     # dispatch through a dict of bound methods
                cx.ctl.append(fv.deps)
                outs = [self.inline(cn, owner, m, is_self, args, kw, cx, e) for cn, owner, m, is_self in fv.meths]
                cx.ctl.pop()
                return join(outs)
            outs = [self.inline(cn, owner, m, is_self, args, kw, cx, e) for cn, owner, m, is_self in fv.meths]
            return join(outs)
        if fv.k == "meth" and fv.recv is not None:
            return self.call_on_value(fv.recv, fv.const, e, args, kw, alld, env, cx)
        if fv.k == "class":
            return raw(alld, deg={})
        if isinstance(f, ast.Attribute):
            b = self.ev(f.value, env, cx) if fv.k != "meth" else fv
            return self.call_on_value(b, f.attr, e, args, kw, alld, env, cx)
        return raw(alld, deg={})

    def arg_unit_converters(self):
        """{method of a value class: positions of the arguments it converts to another unit in place (`arg.to(unit)`)}"""
        if getattr(self, "_auc", None) is None:
            self._auc = {}
            for cn, ci in self.pm.classes.items():
                if not ci.path.endswith(("explainable_objects.py", "explainable_object_base_class.py")):
                    continue
                for m in [x for x in ci.node.body if isinstance(x, ast.FunctionDef)]:
                    ps = [a.arg for a in m.args.args[1:]]
                    rebound = {t.id for a in ast.walk(m) if isinstance(a, ast.Assign) for t in a.targets if isinstance(t, ast.Name)}
                    for c in ast.walk(m):
                        if isinstance(c, ast.Call) and isinstance(c.func, ast.Attribute) and c.func.attr == "to" \
                                and isinstance(c.func.value, ast.Name) and c.func.value.id in ps \
                                and c.func.value.id not in rebound:
                            self._auc.setdefault(m.name, set()).add(ps.index(c.func.value.id))
        return self._auc

    def call_on_value(self, b, name, e, args, kw, alld, env, cx):
        a0 = args[0] if args else None
        where = cx.where()
        if b.k == "none":
            return V("none", deg=None)     # a method call on None raises: this path is infeasible (bottom)
        if b.k == "E":
            if name in E_METHODS:
                s = E_METHODS[name]
                ea = [a for a in args + list(kw.values()) if a.k == "E"]
                nd = F().union(*[a.deps for a in args + list(kw.values()) if a.k != "E"]) if (args or kw) else F()
                if s["inplace"] in ("value", "value-EQ"):
                    cx.inplace.append((e, where, name, b))
                if name == "to":
                    cx.unitconv.append((e, where, "to", b))
                    return b
                for i in self.arg_unit_converters().get(name, ()):
                    if i < len(args) and args[i].k == "E":
                        cx.unitconv.append((e, where, name, args[i]))
                if name == "set_label":
                    lab = e.args[0] if e.args else None
                    nonempty = not (isinstance(lab, ast.Constant) and not lab.value)
                    return b.clone(label=nonempty, deps=b.deps)
                anc = b.anc
                deps = b.deps | nd | cx.ctldeps()
                for a in ea:
                    if "args" in s["parents"]:
                        anc |= a.anc
                    deps |= a.deps
                lin = s["linear"]
                if lin is True or lin == "recv":
                    deg = b.deg
                    if lin == "recv" and name == "generate_explainable_object_with_logical_dependency":
                        pass
                elif lin == "join":
                    deg = d_add(b.deg, ea[0].deg if ea else None)
                else:
                    deg = d_nl(b.deg)
                fresh = True
                shares = b.shares if name in ("generate_explainable_object_with_logical_dependency",) else F()
                recorded = [b] + (ea if "args" in s["parents"] else [])
                v = V("E", anc=anc, deps=deps, deg=deg, fresh=fresh, shares=shares, ek=ek_method(name, b, ea),
                      alts=combine_alts([b] + ea, nd | cx.ctldeps(), anc_from=recorded),
                      label=(b.label if name in ("copy", "__copy__", "__round__",
                                                  "generate_explainable_object_with_logical_dependency") else False)
                      or name == "np_compared_with")
                return self.taintdeg(v, cx)
            if name in ("check",):
                return raw(b.deps, deg={})
            if name in ("explain", "to_json", "plot", "calculus_graph_to_file"):
                return raw(deg={})
            # a method of the explainable classes the frozen summaries do not know (a new helper such as
            # `to_full_hours`): interpret its body with `self` bound to the receiver — it is made of known operations
            outs = []
            for ecls in ("ExplainableQuantity", "ExplainableHourlyQuantities", "EmptyExplainableObject"):
                if ecls not in self.pm.classes:
                    continue
                kinds = {"ExplainableQuantity": "EQ", "ExplainableHourlyQuantities": "EHQ", "EmptyExplainableObject": "EMPTY"}
                if b.ek and kinds[ecls] not in b.ek and "?" not in b.ek:
                    continue
                owner, m = self.pm.find_method(ecls, name)
                if m is None or is_property(m):
                    continue
                key = ("<emethod>", ecls, name)
                if key in cx.stack or len(cx.stack) > MAX_DEPTH:
                    continue
                cx.stack.append(key)
                cx.fn.append((self.pm.classes[owner].path, f"{owner}.{name}"))
                env2 = self.bind_params(m, args, kw, 1, cx)
                env2[m.args.args[0].arg] = b
                saved_ctl, saved_taint = len(cx.ctl), len(cx.taint)
                outs.append(self.run_fn(m.body, env2, cx))
                del cx.ctl[saved_ctl:]
                del cx.taint[saved_taint:]
                cx.fn.pop()
                cx.stack.pop()
            if outs:
                return join(outs)
            cx.unknown.append(f"call of unknown explainable method .{name}() in {where[1]}")
            return raw(b.deps | alld, deg=d_nl(b.deg))
        if b.k == "raw":
            n = name
            if n in ("add", "sub", "combine_first"):
                d = d_add(b.deg, a0.deg if a0 is not None else {})
            elif n == "mul":
                d = d_mul(b.deg, a0.deg)
            elif n in ("div", "truediv"):
                d = d_div(b.deg, a0.deg)
            elif n in LIN_RAW:
                d = b.deg
            else:
                d = d_nl(d_add(b.deg, join(args).deg if args else None))
            car = "bare" if n in ("to_numpy", "tolist", "item") else b.carrier
            # a copy asked for explicitly — x.to_numpy(copy=True), x.astype(float, copy=True), x.copy() — is a new buffer;
            # without it numpy / pandas may hand back a view of the receiver's own data
            explicit_copy = n in ("to_numpy", "astype", "array") and any(
                k.arg == "copy" and isinstance(k.value, ast.Constant) and k.value.value is True for k in e.keywords)
            v = V("raw", deps=b.deps | alld, deg=d,
                  shares=b.shares if (n not in ("copy", "shift", "cumsum", "add", "mul", "abs") and not explicit_copy) else F(),
                  carrier=car, recv=b.recv)
            return self.taintdeg(v, cx)
        if b.k == "rec":
            _names, _d, rcls = self.record_types().get(b.const, ([], {}, None))
            m = next((x for x in rcls.body if isinstance(x, ast.FunctionDef) and x.name == name), None) if rcls else None
            out = self.run_record_method(b.const, m, b, args, kw, cx) if m is not None else None
            if out is None:
                if name in ("_replace", "_asdict"):
                    return b
                cx.unknown.append(f"call of unknown method {b.const}.{name}() in {where[1]}")
                return raw(alld, deg={})
            return out
        if b.k == "list":
            if name == "copy":
                return b
            if name in ("append", "add", "insert") and args:
                b.elem = join([b.elem, args[-1]]) if b.elem is not None else args[-1]
                b.items = None
                return V("none")
            if name in ("extend", "update") and args:
                src = a0.elem if a0.k in ("list", "dict") else (a0 if a0.k != "raw" else None)
                if src is not None:
                    b.elem = join([b.elem, src]) if b.elem is not None else src
                b.items = None
                return V("none")
            if name in ("index", "count"):
                return raw(b.deps | alld, deg={})
            return raw(b.deps | alld, deg={})
        if b.k == "dict":
            if name == "values":
                return V("list", elem=b.elem)
            if name == "keys":
                return V("list", elem=b.kelem if b.kelem is not None else raw(b.deps, deg={}))
            if name == "items":
                # key and value both carry what decided the keys (grouping by a computed key)
                ve = add_deps(b.elem, b.deps) if b.elem is not None else raw(b.deps, deg={})
                if b.kelem is not None:
                    return V("list", elem=V("list", items=(b.kelem, ve), elem=ve))
                return V("list", elem=V("list", elem=ve))
            if name == "setdefault" and args:
                dflt = args[1] if len(args) > 1 else V("none")
                b.fields = None
                b.deps = b.deps | args[0].deps
                if b.elem is None:
                    b.elem = dflt
                elif b.elem.k == "list" and dflt.k == "list":
                    if dflt.elem is not None:
                        b.elem.elem = join([b.elem.elem, dflt.elem]) if b.elem.elem is not None else dflt.elem
                else:
                    b.elem = join([b.elem, dflt])
                return b.elem
            if name == "get":
                # a dict whose entries are known one by one (built over the rows of an exact table): the entry, or the default
                if b.fields is not None and e.args and self.cstr(e.args[0], env) is not None:
                    kc = self.cstr(e.args[0], env)
                    if kc in b.fields:
                        return add_deps(b.fields[kc], b.deps)
                    return add_deps(args[1], b.deps) if len(args) > 1 else V("none")
                return add_deps(b.elem, alld) if b.elem is not None else raw(alld)
            if name == "update":
                b.fields = None
                return V("none")
            if name not in ("copy", "__contains__", "__len__"):
                b.fields = None      # pop / popitem / clear …: the entries are no longer known one by one
            return raw(b.deps | alld, deg={})
        if b.k == "obj":
            outs = []
            for cn in sorted(b.cls):
                owner, m = self.pm.find_method(cn, name)
                if m is None:
                    cx.unknown.append(f"call {cn}.{name}: method not found")
                    continue
                outs.append(self.inline(cn, owner, m, b.is_self, args, kw, cx, e))
            return join(outs)
        if b.k == "class":
            # ClassName.method(…): a static / class method of a class of the package runs as that method
            outs = []
            for cn in sorted(b.cls or ()):
                if cn in self.pm.classes:
                    owner, m = self.pm.find_method(cn, name)
                    decs = {norm(d) for d in m.decorator_list} if m is not None else set()
                    if m is not None and decs & {"staticmethod", "classmethod"}:
                        outs.append(self.inline(cn, owner, m, False, args, kw, cx, e))
                elif self.record_types().get(cn, (0, 0, None))[2] is not None:
                    m = next((x for x in self.record_types()[cn][2].body
                              if isinstance(x, ast.FunctionDef) and x.name == name), None)
                    if m is not None and (is_static(m) or is_classmethod(m)):
                        out = self.run_record_method(cn, m, None, args, kw, cx)
                        if out is not None:
                            outs.append(out)
            if outs:
                return join(outs)
            return raw(alld, deg={})
        return raw(b.deps | alld, deg={})

    def call_module(self, mod, name, e, args, kw, alld, cx):
        """np.*, math.*, pd.*, pint_pandas.* …: raw results; degree by a small table, dependencies = all arguments"""
        a0 = args[0] if args else None
        n = name
        if n in ("ceil", "floor", "round", "rint", "trunc"):
            d = d_nl(a0.deg if a0 is not None else None)
        elif n in ("maximum", "minimum"):
            d = d_add(args[0].deg, args[1].deg)
        elif n in ("abs", "array", "asarray"):
            d = a0.deg
        elif n == "full":
            d = (args[1] if len(args) > 1 else kw.get("fill_value", raw(deg={}))).deg
        elif n in ("DataFrame", "PintArray", "Series"):
            a = a0 if a0 is not None else kw.get("data", raw(deg={}))
            src = a.elem if (a.k in ("dict", "list") and a.elem is not None) else a
            d = src.deg if src.k in ("E", "raw") else {}
        elif n == "concat":
            src = a0.elem if (a0 is not None and a0.elem is not None) else a0
            d = src.deg if src is not None else {}
        elif n in ("ones", "zeros", "arange", "date_range", "timezone", "Timedelta", "search", "match", "linspace",
                   "sin", "pi", "randint"):
            d = {}
        else:
            d = d_nl(join(args).deg if args else None) or {}
        shares = F()
        if n in ("DataFrame", "PintArray", "Series", "array", "asarray"):
            for a in args + list(kw.values()):
                shares |= a.shares
        return self.taintdeg(V("raw", deps=alld, deg=d, shares=shares,
                               carrier="pint" if n in ("PintArray", "DataFrame") else None), cx)

    def call_name(self, n, e, args, kw, alld, env, cx):
        pm = self.pm
        a0 = args[0] if args else None
        where = cx.where()
        if n in E_CTORS:
            names = CTOR_PARAMS[n]
            bound = {}
            for i, a in enumerate(args):
                if i < len(names):
                    bound[names[i]] = (a, e.args[i])
            for k in e.keywords:
                if k.arg:
                    bound[k.arg] = (kw[k.arg], k.value)
            L, R = bound.get("left_parent", (None, None))[0], bound.get("right_parent", (None, None))[0]
            pars = [p for p in (L, R) if p is not None and p.k == "E"]
            anc = F().union(*[p.anc for p in pars]) if pars else F()
            val = bound.get("value", (None, None))[0]
            vdeps = val.deps if val is not None else F()
            lab = bound.get("label", (None, None))[1]
            src = bound.get("source", (None, None))[1]
            has_label = (lab is not None and not (isinstance(lab, ast.Constant) and not lab.value)) or \
                        (n in ("SourceValue", "SourceObject", "SourceHourlyValues")) or \
                        (src is not None and not (isinstance(src, ast.Constant) and src.value is None))
            if n == "EmptyExplainableObject":
                has_label = True
                deg = None
            else:
                deg = val.deg if (val is not None and val.k in ("E", "raw")) else {}
            site = Site("ctor", e, where[1], where[0], ctor=n, parents=anc,
                        valdeps=F(r for r in vdeps if len(r) == 3), ctl=cx.ctldeps(),
                        has_parents=bool(pars) or any(p is not None for p in (L, R)))
            cx.sites.append(site)
            shares = val.shares if val is not None else F()
            pdeps = F().union(*[p.deps for p in pars]) if pars else F()
            v = V("E", anc=anc, deps=vdeps | pdeps | cx.ctldeps(), deg=deg, fresh=True, label=has_label,
                  shares=shares, ek={E_CTORS[n]}, alts=combine_alts(pars, vdeps | cx.ctldeps()))
            return self.taintdeg(v, cx)
        if n == "ExplainableObjectDict":
            return V("E", anc=F(), deps=cx.ctldeps(), deg=None, fresh=True, label=True, ek={"EDICT"})
        if n == "defaultdict":
            # defaultdict(list[, {key: [...]}]): a dict of lists; other factories: a dict of what the factory builds
            fac = e.args[0] if e.args else None
            init = args[1] if len(args) > 1 else None
            if isinstance(fac, ast.Name) and fac.id in ("list", "set"):
                el = V("list")
                if init is not None and init.k == "dict" and init.elem is not None and init.elem.k == "list":
                    el = V("list", elem=init.elem.elem, deps=init.elem.deps)
                return V("dict", elem=el, const="defaultdict", deps=init.deps if init is not None else F(),
                         kelem=init.kelem if init is not None else None)
            if isinstance(fac, ast.Name):
                made = self.call_name(fac.id, ast.Call(func=fac, args=[], keywords=[]), [], {}, F(), env, cx)
                return V("dict", elem=made, deps=F())
            return V("dict")
        if n in ("list", "set", "sorted", "tuple", "reversed"):
            if a0 is None:
                return V("list")
            if a0.k == "dict":
                return V("list", elem=raw(a0.deps, deg={}))
            return a0 if a0.k == "list" else V("list", elem=a0 if a0.k != "raw" else None, deps=a0.deps)
        if n == "sum":
            st = kw.get("start") or (args[1] if len(args) > 1 else None)
            a = a0
            el = a.elem if a.k in ("list", "dict") else a
            if el is None:   # empty/unknown list
                return st if st is not None else raw(a.deps, deg=None)
            if el.k == "list":
                return V("list", elem=el.elem)
            if el.k == "E":
                sd = st.deg if (st is not None and st.k in ("E", "raw")) else None
                v = V("E", anc=el.anc | (st.anc if st is not None else F()),
                      deps=el.deps | (st.deps if st is not None else F()) | a.deps | cx.ctldeps(),
                      deg=d_add(el.deg, sd), fresh=True, label=False,
                      ek=(el.ek | (st.ek if (st is not None and st.k == "E") else F())) or F({"?"}),
                      alts=combine_alts([el] + ([st] if st is not None and st.k == "E" else []), a.deps | cx.ctldeps()))
                return self.taintdeg(v, cx)
            return self.taintdeg(raw(el.deps | a.deps, deg=el.deg), cx)
        if n == "getattr":
            nm = self.cstr(e.args[1], env)
            if nm is None and a0.k == "raw":
                # an attribute of something that is not a model object (a record of an external library): a plain value
                # whatever the name
                return raw(alld, deg=a0.deg)
            if nm is None and a0.k == "obj":
                # a name taken from a table of the class whose entries all have one spelled-out shape —
                # f"{kind}_update_nb_of_instances" — designates one of the methods of the class of that shape: the outcome
                # is one of theirs (every one of them is analysed)
                pat = self._name_pattern(e.args[1], a0, env)
                if pat is not None:
                    import re as _re
                    outs, sel = [], self.ev(e.args[1], env, cx)
                    for cn in sorted(a0.cls):
                        if cn not in self.pm.classes:
                            continue
                        names = {f_.name for k_ in self.pm.mro(cn) if k_ in self.pm.classes for f_ in self.pm.own_methods(k_)}
                        for mname in sorted(x for x in names if _re.fullmatch(pat, x)):
                            owner, m = self.pm.find_method(cn, mname)
                            if m is not None and not is_property(m):
                                outs.append(V("meth", meths=[(cn, owner, m, a0.is_self)], deps=sel.deps))
                    if outs:
                        ms = []
                        for o in outs:
                            ms += o.meths
                        return V("meth", meths=ms, deps=sel.deps)
            if nm is None:
                cx.unknown.append(f"getattr with non-constant name: {norm(e)} in {where[1]}")
                return V("E", deps=alld)
            if a0.k == "obj":
                if len(e.args) > 2:
                    # getattr(obj, name, default): the attribute may legitimately be missing (default branch)
                    saved = list(cx.unknown)
                    v = self.attr_on(a0, nm, cx, e)
                    cx.unknown[:] = saved
                    return v
                return self.attr_on(a0, nm, cx, e)
            return raw(alld, deg={})
        if n == "copy":
            if a0.k == "E":
                # copy(x) runs the class's __copy__: the explainable classes that define their own record x as parent;
                # the base one (used by hourly quantities) builds a parent-less duplicate — read from the source
                keeps = all(self._copy_keeps_parent(k) for k in (a0.ek or {"?"}))
                if not keeps:
                    return V("E", anc=F(), deps=a0.deps | cx.ctldeps(), deg=a0.deg, fresh=True, label=a0.label, ek=a0.ek)
                return V("E", anc=a0.anc, deps=a0.deps | cx.ctldeps(), deg=a0.deg, fresh=True, label=a0.label, ek=a0.ek,
                         alts=combine_alts([a0], cx.ctldeps()))
            return V(a0.k, a0.cls, a0.is_self, a0.elem, deps=a0.deps, deg=a0.deg, carrier=a0.carrier, recv=a0.recv)
        if n == "round":
            if a0.k == "E":
                return self.taintdeg(V("E", anc=a0.anc, deps=a0.deps | cx.ctldeps(), deg=d_nl(a0.deg), fresh=True,
                                       label=a0.label, ek=a0.ek, alts=combine_alts([a0], cx.ctldeps())), cx)
            return raw(alld, deg=d_nl(a0.deg))
        if n == "isinstance":
            return raw(a0.deps, deg={})
        if n == "len":
            return raw(a0.deps, deg={}, carrier="bare")
        if n == "range":
            d = join(args).deg if args else {}
            return V("list", elem=raw(alld, deg={}), deps=alld, deg=d)
        if n in ("int", "float", "str", "bool"):
            return raw(alld, deg=(a0.deg if n == "float" else d_nl(a0.deg)) if a0 is not None else {},
                       carrier="bare")
        if n in ("max", "min"):
            return self.taintdeg(raw(alld, deg=join(args).deg if args else {}), cx)
        if n in ("reduce", "accumulate") and len(args) >= (2 if n == "reduce" else 1):
            # functools.reduce(f, xs[, init]) / itertools.accumulate(xs[, f][, initial=]): two abstract folding steps,
            # joined (like a loop body run twice); accumulate yields every intermediate state
            if n == "reduce":
                f, xs, fnode = args[0], args[1], e.args[0]
                init = args[2] if len(args) > 2 else kw.get("initial")
            else:
                xs = args[0]
                f = args[1] if len(args) > 1 else kw.get("func")
                fnode = e.args[1] if len(e.args) > 1 else next((k.value for k in e.keywords if k.arg == "func"), None)
                init = kw.get("initial")
            el = self.elem_of(xs) if xs.k in ("list", "dict") else xs
            acc = init if init is not None else el
            outs = [acc]
            OPS = {"add": ast.Add(), "iadd": ast.Add(), "mul": ast.Mult(), "imul": ast.Mult(), "sub": ast.Sub(),
                   "truediv": ast.Div(), "concat": ast.Add()}
            opname = None
            if fnode is None:
                opname = "add"
            elif isinstance(fnode, ast.Attribute) and norm(fnode.value) == "operator" and fnode.attr in OPS:
                opname = fnode.attr
            elif isinstance(fnode, ast.Name) and fnode.id in OPS and fnode.id not in env:
                opname = fnode.id
            for _ in range(2):
                if opname is not None:
                    acc = self.binop(OPS[opname], acc, el, cx, e)
                elif f is not None and f.k == "lambda":
                    acc = self.call_closure(f, [acc, el], {}, cx)
                elif f is not None and f.k == "meth" and f.meths:
                    acc = join([self.inline(cn, owner, m, is_self, [acc, el], {}, cx, e) for cn, owner, m, is_self in f.meths])
                else:
                    cx.unknown.append(f"{n} with a function the analyser cannot follow in {where[1]}")
                    return raw(alld, deg={})
                outs.append(acc)
            return join(outs) if n == "reduce" else V("list", elem=join(outs), deps=xs.deps)
        if n == "map" and args and args[0].k == "lambda":
            els = [self.elem_of(a) if a.k in ("list", "dict") else a for a in args[1:]]
            return V("list", elem=self.call_closure(args[0], els, {}, cx), deps=alld)
        if n in ("map", "filter") and args and args[0].k == "lambda":
            els = [self.elem_of(a) if a.k in ("list", "dict") else a for a in args[1:]]
            t = self.call_closure(args[0], els, {}, cx)
            return V("list", elem=add_deps(join(els), t.deps) if els else None, deps=alld)
        if n in ("zip", "zip_longest") and args and all(a.k in ("list", "dict") for a in args):
            els = [self.elem_of(a) for a in args]
            # the pairing depends on the lengths of all the inputs — on what decides their structure, not on what their
            # elements are worth (each element carries that itself)
            struct = F().union(*[a.deps for a in args])
            return V("list", elem=V("list", elem=join(els), items=els, deps=struct), deps=struct)
        if n == "enumerate" and args and args[0].k in ("list", "dict"):
            el = self.elem_of(args[0])
            return V("list", elem=V("list", elem=el, items=[raw(args[0].deps, deg={}, carrier="bare"), el]), deps=alld)
        if n == "map" and len(args) == 2 and args[0].k == "meth" and args[0].meths:
            # map(self.method, xs) / map(Class.static_method, xs): the method applied to an element
            el = self.elem_of(args[1]) if args[1].k in ("list", "dict") else args[1]
            fv = args[0]
            outs_ = [self.inline(cn_, owner_, m_, is_self_, ([el] if not (fv.const == "<unbound>") else [el])[(0 if True else 0):], {}, cx, e)
                     for cn_, owner_, m_, is_self_ in fv.meths]
            return V("list", elem=join(outs_) if outs_ else None, deps=args[1].deps)
        if n == "map" and len(args) == 2 and args[0].k == "getter":
            el = self.elem_of(args[1]) if args[1].k in ("list", "dict") else args[1]
            return V("list", elem=self.get_path(el, args[0].const, cx, e) if el.k == "obj" else raw(alld), deps=args[1].deps)
        if n in ("map", "zip", "enumerate", "filter", "chain", "zip_longest", "islice", "product", "starmap", "repeat",
                 "cycle", "takewhile", "dropwhile", "pairwise", "compress"):
            els = [a.elem for a in args if a.k in ("list", "dict") and a.elem is not None]
            # what is paired / selected also depends on the lengths and keys of the inputs
            return V("list", elem=add_deps(join(els), alld) if els else raw(alld), deps=alld)
        if n == "groupby" and args:
            xs = args[0]
            el = self.elem_of(xs) if xs.k in ("list", "dict") else xs
            kf = args[1] if len(args) > 1 else kw.get("key")
            kv = self.call_closure(kf, [el], {}, cx) if (kf is not None and kf.k == "lambda") else el
            # key=itemgetter(i) on tuples built component by component: the key is that component
            knode = e.args[1] if len(e.args) > 1 else next((k_.value for k_ in e.keywords if k_.arg == "key"), None)
            if isinstance(knode, ast.Call) and norm(knode.func).split(".")[-1] == "itemgetter" and len(knode.args) == 1 \
                    and isinstance(knode.args[0], ast.Constant) and isinstance(knode.args[0].value, int) \
                    and el.k == "list" and el.items and 0 <= knode.args[0].value < len(el.items):
                kv = el.items[knode.args[0].value]
            # key=<a function that sorts objects into kinds by class: `if isinstance(o, K): return "<kind>"` …>: one group per
            # kind, holding the objects of the classes that answer with it
            clf = self._classifier(knode, env) if knode is not None else None
            if clf is not None and el.k == "obj" and el.cls:
                by_kind = {}
                for c_ in sorted(el.cls):
                    by_kind.setdefault(clf(c_), []).append(c_)
                if None not in by_kind:
                    pairs = [V("list", items=[raw(xs.deps, deg={}, const=k_),
                                              V("list", elem=add_deps(V("obj", cs_, False), el.deps | xs.deps), deps=xs.deps)])
                             for k_, cs_ in sorted(by_kind.items())]
                    return V("list", items=pairs, elem=join(pairs), deps=xs.deps)
            grp = add_deps(el, kv.deps | xs.deps)
            # (key, group) pairs
            return V("list", elem=V("list", items=[add_deps(kv, xs.deps), V("list", elem=grp, deps=xs.deps | kv.deps)], elem=grp),
                     deps=xs.deps | kv.deps)
        if n in self.record_types():
            names, dflts, _cls = self.record_types()[n]
            fields = {}
            spread = None
            for i, a in enumerate(args):
                if i < len(e.args) and isinstance(e.args[i], ast.Starred):
                    # R(*values): the remaining fields are elements of what is unpacked
                    el_ = self.elem_of(a) if a.k in ("list", "dict") else a
                    spread = raw(deep_deps(a) | deep_deps(el_), deg=el_.deg if el_.k in ("E", "raw") else {})
                    continue
                if i < len(names) and spread is None:
                    fields[names[i]] = a
            for k_, v_ in kw.items():
                fields[k_] = v_
            if spread is not None:
                for nm in names:
                    fields.setdefault(nm, spread)
            for nm in names:
                if nm not in fields:
                    fields[nm] = self.ev(dflts[nm], {}, cx) if nm in dflts else V("none")
            return V("rec", const=n, fields=fields, deps=cx.ctldeps())
        if n == "partial" and args and args[0].k in ("meth", "lambda"):
            pa0, pk0 = args[0].pbind or ((), {})
            return args[0].clone(pbind=(tuple(pa0) + tuple(args[1:]), dict(pk0, **kw)))
        if n == "attrgetter" and len(e.args) == 1 and self.cstr(e.args[0], env) is not None:
            return V("getter", const=self.cstr(e.args[0], env))
        if n in ("attrgetter", "itemgetter", "methodcaller"):
            return raw(alld, deg={})
        if n == "divmod":
            return V("list", elem=raw(alld, deg=d_nl(join(args).deg) if args else {}, carrier="bare"), deps=alld)
        if n == "u":
            return raw(alld, deg={})
        if n == "hasattr":
            return raw(deg={})
        if n in self.free:
            modname, fn = self.free[n]
            return self.inline_free(fn, self.pm.modules[modname][0], args, kw, cx)
        if n in pm.classes:
            return raw(alld, deg={})
        if n in pm.functions:
            modname, fn = pm.functions[n]
            return self.inline_free(fn, pm.modules[modname][0], args, kw, cx)
        if n in EXTERNAL_CALLS:
            return raw(alld, deg={})
        if n == "next" and a0 is not None and a0.k in ("list", "dict"):
            # next(<iterable>[, default]): one of its elements, or the default
            el_ = self.elem_of(a0)
            outs_ = [add_deps(el_, a0.deps)] + ([args[1]] if len(args) > 1 else [])
            return join(outs_) if len(outs_) > 1 else outs_[0]
        if n == "iter" and a0 is not None and a0.k in ("list", "dict"):
            return a0
        if n in ("print", "type", "id", "hash", "repr", "abs", "any", "all", "next", "iter", "dict", "format"):
            return raw(alld, deg={})
        cx.unknown.append(f"call of unknown function {n}() in {where[1]}")
        return raw(alld, deg={})

    def run_record_method(self, rname, m, recv, args, kw, cx):
        """a method of a plain record class (NamedTuple / dataclass outside the hierarchies) run in place: on a record value
        (recv), or through the class for a class / static method (recv None). None when it cannot be run (recursion, depth)."""
        key = ("<record>", rname, m.name)
        if key in cx.stack or len(cx.stack) > MAX_DEPTH:
            return None
        cx.stack.append(key)
        skip = 0 if is_static(m) else 1
        env2 = self.bind_params(m, args, kw, skip, cx)
        if skip:
            env2[m.args.args[0].arg] = V("class", cls={rname}) if (is_classmethod(m) or recv is None) else recv
        saved_ctl, saved_taint = len(cx.ctl), len(cx.taint)
        out = self.run_fn(m.body, env2, cx)
        del cx.ctl[saved_ctl:]
        del cx.taint[saved_taint:]
        cx.stack.pop()
        return out

    # -------------------------------------------------------------------------------------------- inlining
    def bind_params(self, fn, args, kw, skip, cx):
        env = {}
        ps = [a.arg for a in fn.args.args][skip:]
        defaults = fn.args.defaults
        dps = ps[len(ps) - len(defaults):] if defaults else []
        for i, p in enumerate(ps):
            if i < len(args):
                env[p] = args[i]
            elif p in kw:
                env[p] = kw[p]
            elif p in dps:
                env[p] = self.ev(defaults[dps.index(p)], {}, cx)
        for a, d in zip(fn.args.kwonlyargs, fn.args.kw_defaults):
            if a.arg in kw:
                env[a.arg] = kw[a.arg]
            elif d is not None:
                env[a.arg] = self.ev(d, {}, cx)
        return env

    def inline_free(self, fn, path, args, kw, cx):
        key = ("", fn.name)
        if key in cx.stack:
            return V("raw")
        if len(cx.stack) > MAX_DEPTH:
            cx.unknown.append("inlining depth bound reached")
            return V("raw")
        cx.stack.append(key)
        cx.fn.append((path, fn.name))
        env = self.bind_params(fn, args, kw, 0, cx)
        saved_ctl, saved_taint = len(cx.ctl), len(cx.taint)
        out = self.run_fn(fn.body, env, cx)
        del cx.ctl[saved_ctl:]
        del cx.taint[saved_taint:]
        cx.fn.pop()
        cx.stack.pop()
        return out

    def inline(self, cn, owner, fn, is_self, args, kw, cx, call):
        key = (cn, owner, fn.name)
        if key in cx.stack:
            return V("raw")
        if len(cx.stack) > MAX_DEPTH:
            cx.unknown.append("inlining depth bound reached")
            return V("raw")
        cx.stack.append(key)
        path = self.pm.classes[owner].path
        cx.fn.append((path, f"{owner}.{fn.name}"))
        cx.calls.append(f"{owner}.{fn.name}")
        skip = 0 if is_static(fn) else 1
        env = self.bind_params(fn, args, kw, skip, cx)
        if not is_static(fn):
            first = fn.args.args[0].arg
            if is_classmethod(fn):
                env[first] = V("class", cls={cn})
            else:
                env[first] = V("obj", [cn], is_self)
        saved_ctl, saved_taint = len(cx.ctl), len(cx.taint)
        out = self.run_fn(fn.body, env, cx)
        del cx.ctl[saved_ctl:]
        del cx.taint[saved_taint:]
        cx.fn.pop()
        cx.stack.pop()
        return out

    def run_fn(self, body, env, cx):
        rets = []
        if _is_generator_body(body):
            # a generator function: what the caller iterates over is the list of everything it yields (each value with the
            # control dependencies in force where it is yielded)
            ys = cx.__dict__.setdefault("yields", [])
            ys.append([])
            self.run(body, env, cx, rets)
            out = ys.pop()
            return V("list", elem=join(out) if out else None, deps=F().union(*[y.deps for y in out]) if out else F())
        self.run(body, env, cx, rets)
        return join(rets) if rets else V("none")

    def ev_Yield(self, e, env, cx):
        v = self.ev(e.value, env, cx) if e.value is not None else V("none")
        ys = cx.__dict__.get("yields")
        if ys:
            ys[-1].append(add_deps(v, cx.ctldeps()) if v.k in ("E", "raw", "obj", "list", "rec") else v)
        return V("none")

    def ev_YieldFrom(self, e, env, cx):
        v = self.ev(e.value, env, cx)
        ys = cx.__dict__.get("yields")
        if ys:
            el = self.elem_of(v)
            if el is not None:
                ys[-1].append(add_deps(el, cx.ctldeps() | v.deps))
        return V("none")

    # -------------------------------------------------------------------------------------------- statements
    def bind(self, t, v, env, cx):
        if isinstance(t, ast.Name):
            env[t.id] = v
        elif isinstance(t, (ast.Tuple, ast.List)):
            if v.k == "list" and v.items and len(v.items) == len(t.elts):
                for x, it_ in zip(t.elts, v.items):
                    self.bind(x, add_deps(it_, v.deps), env, cx)
                return
            for x in t.elts:
                self.bind(x, v.elem if (v.k == "list" and v.elem is not None) else v, env, cx)

    @staticmethod
    def _self_attr(t, env):
        return isinstance(t, ast.Attribute) and isinstance(t.value, ast.Name) and t.value.id in env \
            and env[t.value.id].k == "obj" and env[t.value.id].is_self

    def assign(self, tg, v, env, cx, stmt):
        where = cx.where()
        if isinstance(tg, ast.Name):
            env[tg.id] = v
        elif self._self_attr(tg, env):
            site = Site("write", stmt, where[1], where[0], target=tg.attr, parents=v.anc,
                        valdeps=v.deps | cx.ctldeps(), ctl=cx.ctldeps(), value=v)
            site.alts = tuple((a, d | cx.ctldeps()) for a, d in alts_of(v)) if v.k == "E" else None
            cx.writes.setdefault(tg.attr, []).append(site)
            if v.k == "E" and v.fresh and "EDICT" in (v.ek or ()):
                # a fresh per-usage-pattern dict installed by this rule: reading self.<attr> back (to fill it through a
                # local name) gives this very object, not the attribute's previous value
                cx.own_written[tg.attr] = v
            else:
                cx.own_written.pop(tg.attr, None)
        elif isinstance(tg, ast.Attribute) and self.ev(tg.value, env, cx).k == "rec":
            # a field of a (mutable) record: the record stands for every element of the list it sits in, so the field
            # keeps what it held and gains the new value
            b = self.ev(tg.value, env, cx)
            if b.fields is None:
                b.fields = {}
            old_f = b.fields.get(tg.attr)
            b.fields[tg.attr] = v if old_f is None else join([old_f, v])
        elif isinstance(tg, ast.Attribute):
            b = self.ev(tg.value, env, cx)
            if b.k == "obj":
                cx.foreign_writes.append((stmt, where, norm(stmt)))
            elif b.k in ("E", "raw") and not b.fresh:
                cx.frame_stores.append((stmt, where, b))
        elif isinstance(tg, ast.Subscript):
            i = self.ev(tg.slice, env, cx)
            if self._self_attr(tg.value, env):
                v2 = add_deps(v, i.deps)
                site = Site("write", stmt, where[1], where[0], target=tg.value.attr, parents=v2.anc,
                            valdeps=v2.deps | cx.ctldeps(), ctl=cx.ctldeps(), value=v2)
                site.alts = tuple((a, d | cx.ctldeps()) for a, d in alts_of(v2)) if v2.k == "E" else None
                cx.writes.setdefault(tg.value.attr, []).append(site)
                return
            base = tg.value
            while isinstance(base, (ast.Attribute, ast.Subscript)):
                base = base.value
            if isinstance(tg.value, ast.Name) and tg.value.id in env:
                own = next((a_ for a_, ov in cx.own_written.items() if ov is env[tg.value.id]), None)
                if own is not None:
                    # `d = self.<attr>` (the dict this rule has just installed) … `d[key] = v` is `self.<attr>[key] = v`
                    v2 = add_deps(v, i.deps)
                    site = Site("write", stmt, where[1], where[0], target=own, parents=v2.anc,
                                valdeps=v2.deps | cx.ctldeps(), ctl=cx.ctldeps(), value=v2)
                    site.alts = tuple((a, d | cx.ctldeps()) for a, d in alts_of(v2)) if v2.k == "E" else None
                    cx.writes.setdefault(own, []).append(site)
                    return
            bv = self.ev(tg.value, env, cx)
            if bv.k in ("E", "raw") and (not bv.fresh or bv.shares):
                cx.frame_stores.append((stmt, where, bv))
            if isinstance(base, ast.Name) and base.id in env:
                d = env[base.id]
                if d.k == "dict":
                    # keys stay "model objects" as long as every key stored is one
                    if i.k == "obj":
                        ke = join([d.kelem, i]) if d.kelem is not None else (i if d.elem is None else None)
                    else:
                        ke = None
                    env[base.id] = V("dict", elem=join([d.elem, v]) if d.elem is not None else v,
                                     deps=d.deps | i.deps, meths=d.meths, kelem=ke)
                elif d.k in ("raw", "E"):
                    env[base.id] = d.clone(deps=d.deps | v.deps | i.deps, deg=d_add(d.deg, v.deg))
                elif d.k == "obj":
                    cx.foreign_writes.append((stmt, where, norm(stmt)))
        elif isinstance(tg, (ast.Tuple, ast.List)):
            if v.k == "list" and v.items and len(v.items) == len(tg.elts):
                for x, it_ in zip(tg.elts, v.items):
                    self.assign(x, add_deps(it_, v.deps), env, cx, stmt)
                return
            for x in tg.elts:
                self.assign(x, v.elem if (v.k == "list" and v.elem is not None) else raw(v.deps, deg=v.deg), env, cx,
                            stmt)

    def invariant_test(self, t, env, cx):
        """tests whose outcome is invariant under scaling any driver by k>0 (sign, zero, emptiness, type)"""
        if isinstance(t, ast.UnaryOp) and isinstance(t.op, ast.Not):
            return self.invariant_test(t.operand, env, cx)
        if isinstance(t, ast.BoolOp):
            return all(self.invariant_test(v, env, cx) for v in t.values)
        if isinstance(t, ast.Call) and isinstance(t.func, ast.Name) and t.func.id in ("isinstance", "hasattr"):
            return True
        if isinstance(t, ast.Compare) and len(t.ops) == 1:
            c = t.comparators[0]
            if isinstance(t.ops[0], (ast.Is, ast.IsNot)):
                return True
            if isinstance(c, ast.Constant) and (c.value == 0 or c.value is None):
                return True
            if isinstance(c, ast.BinOp) and isinstance(c.left, ast.Constant) and c.left.value == 0:
                return True
        return False

    @staticmethod
    def exits(body):
        return bool(body) and isinstance(body[-1], (ast.Return, ast.Raise, ast.Continue, ast.Break))

    def _loop_body(self, body, env, before, cx, rets, keep_break=False):
        """one abstract iteration: `continue` / `break` arms make the rest of the body control dependent on their
        test (popped again here) and their environments are joined back in at the end of the iteration. With
        keep_break (rows of a literal table run one after the other) the test of a `break` arm stays: the later rows
        only run when it was false."""
        cx.loop_exits.append([])
        lc, lt = len(cx.ctl), len(cx.taint)
        self.run(body, env, cx, rets)
        envs = cx.loop_exits.pop()
        keep = (lambda x: keep_break and getattr(x, "brk", False))
        cx.ctl[lc:] = [x for x in cx.ctl[lc:] if not getattr(x, "loop", False) or keep(x)]
        cx.taint[lt:] = [x for x in cx.taint[lt:] if not getattr(x, "loop", False) or keep(x)]
        for other in [before] + envs:
            for k in set(other) | set(env):
                a, b = other.get(k), env.get(k)
                env[k] = b if a is None else (a if b is None else (a if a is b else join([a, b])))

    def _static_attrs(self, s, env):
        """`setattr(x, <name>, v)` as the assignment `x.<name> = v` and `getattr(x, <name>)` as `x.<name>` when the name
        is a constant on this path (a literal, or a parameter the caller bound to one): the helper that fills "the
        attribute called so-and-so" is read as the caller's own assignment"""
        if not any(isinstance(n, ast.Call) and isinstance(n.func, ast.Name) and n.func.id in ("setattr", "getattr")
                   for n in ast.walk(s)):
            return s
        me = self
        from .astutil import clone

        class T(ast.NodeTransformer):
            def visit_Call(self, node):
                self.generic_visit(node)
                if isinstance(node.func, ast.Name) and node.func.id == "getattr" and len(node.args) == 2 \
                        and not node.keywords:
                    nm = me.cstr(node.args[1], env)
                    if nm is not None and nm.isidentifier():
                        return ast.copy_location(ast.Attribute(value=node.args[0], attr=nm, ctx=ast.Load()), node)
                return node
        new = s
        if isinstance(s, ast.Expr) and isinstance(s.value, ast.Call) and isinstance(s.value.func, ast.Name) \
                and s.value.func.id == "setattr" and len(s.value.args) == 3 and not s.value.keywords:
            nm = self.cstr(s.value.args[1], env)
            if nm is not None and nm.isidentifier():
                c = clone(s.value)
                new = ast.copy_location(ast.Assign(
                    targets=[ast.copy_location(ast.Attribute(value=c.args[0], attr=nm, ctx=ast.Store()), s)],
                    value=c.args[2]), s)
        if new is s:
            new = clone(s)
        new = T().visit(new)
        if isinstance(new, ast.Assign):
            for t in new.targets:
                for n in ast.walk(t):
                    if isinstance(n, ast.Attribute) and n is t:
                        n.ctx = ast.Store()
        for n in ast.walk(new):
            for ch in ast.iter_child_nodes(n):
                ch._parent = n
        new._parent = getattr(s, "_parent", None)
        return new

    def run(self, body, env, cx, rets):
        for s in body:
            if isinstance(s, (ast.Expr, ast.Assign, ast.AugAssign, ast.Return)):
                s = self._static_attrs(s, env)
            if isinstance(s, ast.Assign):
                v = self.ev(s.value, env, cx)
                if v.k == "E":
                    v = add_deps(v, cx.ctldeps())
                v = self.taintdeg(v, cx)
                for tg in s.targets:
                    self.assign(tg, v, env, cx, s)
            elif isinstance(s, ast.AnnAssign):
                if s.value is not None:
                    self.assign(s.target, self.ev(s.value, env, cx), env, cx, s)
            elif isinstance(s, ast.AugAssign):
                v = self.ev(s.value, env, cx)
                old = self.ev(s.target, env, cx)
                new = self.binop(s.op, old, v, cx, s)
                self.assign(s.target, new, env, cx, s)
            elif isinstance(s, ast.For):
                it = self.ev(s.iter, env, cx)
                cx.ctl.append(it.deps)
                tk = {k for k, d in (it.deg or {}).items() if d != 0}
                cx.taint.append(tk)
                cx.in_loop += 1
                if it.k == "list" and it.items and not isinstance(s.target, ast.Name) or (
                        it.k == "list" and it.items and all(x.k in ("list", "meth", "rec", "lambda") for x in it.items)):
                    # a literal table (tuple of tuples, list of bound methods …): each row in turn, with its own values
                    base_c, base_t = len(cx.ctl), len(cx.taint)
                    for row in it.items:
                        before = dict(env)
                        self.bind(s.target, add_deps(row, it.deps), env, cx)
                        self._loop_body(s.body, env, before, cx, rets, keep_break=True)
                    del cx.ctl[base_c:]
                    del cx.taint[base_t:]
                else:
                    for _ in range(2):
                        before = dict(env)
                        self.bind(s.target, self.elem_of(it), env, cx)
                        self._loop_body(s.body, env, before, cx, rets)
                cx.in_loop -= 1
                self.run(s.orelse, env, cx, rets)
                cx.taint.pop()
                cx.ctl.pop()
            elif isinstance(s, ast.If) and self.const_test(s.test, env) is not None:
                # decided by constants (a row of a literal table compared with a literal): only that arm runs
                self.run(s.body if self.const_test(s.test, env) else s.orelse, env, cx, rets)
            elif isinstance(s, ast.If):
                t = self.ev(s.test, env, cx)
                guard = self.exits(s.body) and isinstance(s.body[-1], ast.Raise) and not s.orelse
                inv = guard or self.invariant_test(s.test, env, cx)
                tk = set()
                if not inv:
                    tk = {k for k, d in (self._test_deg(s.test, env, cx) or {}).items() if d != 0}
                lc, lt = len(cx.ctl), len(cx.taint)
                ce, te = _Ctl(t.deps), _Taint(tk)
                ce.empt = _emptiness_test(s.test)
                cx.ctl.append(ce)
                cx.taint.append(te)
                e1, e2 = dict(env), dict(env)
                n1 = isinstance(s.test, ast.Call) and self._isinstance_narrow(s.test, e1)
                self.run(s.body, e1, cx, rets)
                self.run(s.orelse, e2, cx, rets)
                x1, x2 = self.exits(s.body), self.exits(s.orelse)
                if x1 and not x2:
                    merged = e2
                elif x2 and not x1:
                    merged = e1
                else:
                    merged = {}
                    for k in set(e1) | set(e2):
                        a, b = e1.get(k), e2.get(k)
                        if a is None or b is None or a is b:
                            merged[k] = a if b is None else b if a is None else a
                        elif a is not env.get(k) and b is not env.get(k) and a.k == "E" and b.k == "E" \
                                and not cx.in_loop:
                            merged[k] = join_alts(a, b)      # assigned on both arms: keep the arms apart
                        elif (a is env.get(k)) != (b is env.get(k)) and a.k == "E" and b.k == "E" and not cx.in_loop:
                            # assigned on one arm only: the other alternative is the value from before the test, and
                            # which of the two holds depends on the test
                            old, new_v = (a, b) if a is env.get(k) else (b, a)
                            tc = F((r[0], r[1], r[2], "c") for r in t.deps if len(r) == 3) | F(r for r in t.deps if len(r) == 4)
                            merged[k] = join_alts(add_deps(old, tc), new_v)
                        else:
                            merged[k] = join([a, b])
                env.clear()
                env.update(merged)
                raises = all(isinstance(b[-1], ast.Raise) for b, x in ((s.body, x1), (s.orelse, x2)) if x)
                if not (x1 or x2) or raises:
                    # (an arm that raises assigns nothing: what follows does not vary with the test)
                    if len(cx.ctl) == lc + 1 and len(cx.taint) == lt + 1:
                        cx.ctl.pop()
                        cx.taint.pop()
                    else:
                        # a nested arm left the block (return / continue / …): what follows depends on this test too
                        ce.loop = te.loop = all(getattr(x, "loop", False) for x in cx.ctl[lc + 1:])
                elif cx.loop_exits and all(isinstance(b[-1], (ast.Continue, ast.Break))
                                           for b, x in ((s.body, x1), (s.orelse, x2)) if x):
                    # the rest of the loop body is control dependent on the test (dropped again by _loop_body)
                    ce.loop = te.loop = True
                    ce.brk = te.brk = all(isinstance(b[-1], ast.Break) for b, x in ((s.body, x1), (s.orelse, x2)) if x)
                    cx.loop_exits[-1].append(e1 if x1 else e2)
                # else: the rest of the function is control dependent on the test (restored by inline)
            elif isinstance(s, ast.Return):
                if s.value is not None:
                    v = self.ev(s.value, env, cx)
                    rets.append(self.taintdeg(add_deps(v, cx.ctldeps()) if v.k in ("E", "raw") else v, cx))
            elif isinstance(s, ast.Expr):
                self.ev(s.value, env, cx)
            elif isinstance(s, ast.Assert):
                self.ev(s.test, env, cx)
            elif isinstance(s, ast.Raise):
                pass
            elif isinstance(s, (ast.Continue, ast.Break)):
                pass
            elif isinstance(s, ast.While):
                t = self.ev(s.test, env, cx)
                cx.ctl.append(t.deps)
                cx.taint.append({k for k, d in (self._test_deg(s.test, env, cx) or {}).items() if d != 0})
                cx.in_loop += 1
                for _ in range(2):
                    self._loop_body(s.body, env, dict(env), cx, rets)
                    self.ev(s.test, env, cx)
                cx.in_loop -= 1
                self.run(s.orelse, env, cx, rets)
                cx.taint.pop()
                cx.ctl.pop()
            elif isinstance(s, (ast.Pass, ast.Import, ast.ImportFrom)):
                pass
            elif isinstance(s, ast.FunctionDef):
                env[s.name] = V("lambda", node=s, const=env, deg={})      # local helper: run at its call sites
            elif isinstance(s, ast.Delete):
                pass
            else:
                cx.unknown.append(f"statement {type(s).__name__} in {cx.where()[1]}")

    def _test_deg(self, t, env, cx):
        """degree vector joined over the operands of a comparison (evaluated without side effects on cx)"""
        scratch = Cx(cx.cls, cx.attr)
        scratch.stack = list(cx.stack)
        scratch.fn = list(cx.fn)
        out = None
        ops = []
        if isinstance(t, ast.Compare):
            ops = [t.left] + list(t.comparators)
        elif isinstance(t, ast.BoolOp):
            ops = list(t.values)
        elif isinstance(t, ast.UnaryOp):
            ops = [t.operand]
        else:
            ops = [t]
        for o in ops:
            if isinstance(o, (ast.Compare, ast.BoolOp, ast.UnaryOp)):
                d = self._test_deg(o, env, cx)
            else:
                v = self.ev(o, env, scratch)
                d = v.deg if v.k in ("E", "raw") else None
            if d:
                out = dict(out or {})
                for k, x in d.items():
                    if x != 0:
                        out[k] = x
        return out
