"""Mechanical behaviour-preserving refactorings of the whole package, used to test the rules for name / shape
sensitivity (none of them may change a verdict; each mode was confirmed on the pinned suite: same tests pass):
  rename   every local variable / loop variable / comprehension variable of every function gets a suffix
  swap     every `if c: A else: B` (both arms non-empty) becomes `if not c: B else: A`
  both     the two together
  noelse   `if c: …; return  else: B`  ->  `if c: …; return` followed by B
  temps    `return <call>` / `self.a = <call>`  ->  through a temporary
  keys     `k in d.keys()` -> `k in d`; De Morgan; `if a and b:` (no else) -> nested ifs
  desugar  statement-level list comprehensions -> explicit loops
CLI: tools/mech_refactor.py <mode> <out dir> (copies <repo>/efootprint to <out dir>/efootprint, transformed)."""
import ast, os, shutil, sys

SUFFIX = "_rn"


def locals_to_rename(fn):
    stored, banned = set(), set()
    params = {a.arg for a in fn.args.args + fn.args.kwonlyargs + fn.args.posonlyargs}
    if fn.args.vararg:
        params.add(fn.args.vararg.arg)
    if fn.args.kwarg:
        params.add(fn.args.kwarg.arg)
    for n in ast.walk(fn):
        if isinstance(n, ast.Name) and isinstance(n.ctx, (ast.Store, ast.Del)):
            stored.add(n.id)
        elif isinstance(n, (ast.Global, ast.Nonlocal)):
            banned |= set(n.names)
        elif isinstance(n, (ast.Import, ast.ImportFrom)):
            banned |= {(a.asname or a.name).split(".")[0] for a in n.names}
        elif isinstance(n, (ast.FunctionDef, ast.Lambda, ast.AsyncFunctionDef)) and n is not fn:
            a = n.args
            banned |= {x.arg for x in a.args + a.kwonlyargs + a.posonlyargs}
            if a.vararg:
                banned.add(a.vararg.arg)
            if a.kwarg:
                banned.add(a.kwarg.arg)
            if not isinstance(n, ast.Lambda):
                banned.add(n.name)
        elif isinstance(n, ast.ClassDef):
            banned.add(n.name)
        elif isinstance(n, ast.ExceptHandler) and n.name:
            banned.add(n.name)
        elif isinstance(n, ast.Call) and isinstance(n.func, ast.Name) and n.func.id in ("locals", "vars", "eval", "exec"):
            return set()
    return {x for x in stored - params - banned if not x.startswith("__") and x != "_"}


class Renamer(ast.NodeTransformer):
    def __init__(self):
        self.stack = []

    def visit_FunctionDef(self, fn):
        outer = self.stack[-1] if self.stack else set()
        mine = locals_to_rename(fn) | outer           # free variables of nested functions follow the enclosing rename
        self.stack.append(mine)
        fn.body = [self.visit(s) for s in fn.body]
        fn.args = self.generic_visit(fn.args)
        fn.decorator_list = [self.visit(d) for d in fn.decorator_list]
        self.stack.pop()
        return fn

    def visit_ClassDef(self, c):
        saved, self.stack = self.stack, []
        self.generic_visit(c)
        self.stack = saved
        return c

    def visit_Name(self, n):
        if self.stack and n.id in self.stack[-1]:
            return ast.copy_location(ast.Name(id=n.id + SUFFIX, ctx=n.ctx), n)
        return n


class Swapper(ast.NodeTransformer):
    def visit_If(self, n):
        self.generic_visit(n)
        if n.body and n.orelse:
            t = n.test
            neg = t.operand if isinstance(t, ast.UnaryOp) and isinstance(t.op, ast.Not) else ast.UnaryOp(op=ast.Not(), operand=t)
            return ast.copy_location(ast.If(test=neg, body=n.orelse, orelse=n.body), n)
        return n


class NoElse(ast.NodeTransformer):
    """`if c: …; return/raise/continue/break  else: B`  ->  `if c: …; return`  followed by B"""
    def _block(self, stmts):
        out = []
        for s in stmts:
            s = self.visit(s)
            if isinstance(s, ast.If) and s.body and s.orelse and isinstance(
                    s.body[-1], (ast.Return, ast.Raise, ast.Continue, ast.Break)):
                tail = s.orelse
                s.orelse = []
                out.append(s)
                out.extend(tail)
            else:
                out.append(s)
        return out

    def generic_visit(self, node):
        super().generic_visit(node)
        for f in ("body", "orelse", "finalbody"):
            b = getattr(node, f, None)
            if isinstance(b, list) and b and isinstance(b[0], ast.stmt):
                setattr(node, f, self._block(b))
        return node


class Temps(ast.NodeTransformer):
    """`return <call>` -> `result_tmp = <call>; return result_tmp`;  `self.a = <call>` -> `value_tmp = <call>; self.a = value_tmp`"""
    def _block(self, stmts):
        out = []
        for s in stmts:
            if isinstance(s, ast.Return) and isinstance(s.value, (ast.Call, ast.BinOp)):
                out.append(ast.Assign(targets=[ast.Name(id="result_tmp", ctx=ast.Store())], value=s.value))
                out.append(ast.Return(value=ast.Name(id="result_tmp", ctx=ast.Load())))
            elif isinstance(s, ast.Assign) and len(s.targets) == 1 and isinstance(s.targets[0], ast.Attribute) \
                    and isinstance(s.targets[0].value, ast.Name) and s.targets[0].value.id == "self" \
                    and isinstance(s.value, (ast.Call, ast.BinOp)):
                out.append(ast.Assign(targets=[ast.Name(id="value_tmp", ctx=ast.Store())], value=s.value))
                out.append(ast.Assign(targets=s.targets, value=ast.Name(id="value_tmp", ctx=ast.Load())))
            else:
                out.append(s)
        return out

    def generic_visit(self, node):
        super().generic_visit(node)
        if isinstance(node, ast.Lambda):
            return node
        for f in ("body", "orelse", "finalbody"):
            b = getattr(node, f, None)
            if isinstance(b, list) and b and isinstance(b[0], ast.stmt):
                setattr(node, f, self._block(b))
        return node


class Keys(ast.NodeTransformer):
    """`k in d.keys()` -> `k in d`;  `not (a and b)` -> `not a or not b`;  `if a and b: X` (no else) -> nested ifs"""
    def visit_Compare(self, n):
        self.generic_visit(n)
        if len(n.ops) == 1 and isinstance(n.ops[0], (ast.In, ast.NotIn)):
            c = n.comparators[0]
            if isinstance(c, ast.Call) and isinstance(c.func, ast.Attribute) and c.func.attr == "keys" and not c.args:
                n.comparators = [c.func.value]
        return n

    def visit_UnaryOp(self, n):
        self.generic_visit(n)
        if isinstance(n.op, ast.Not) and isinstance(n.operand, ast.BoolOp):
            op = ast.Or() if isinstance(n.operand.op, ast.And) else ast.And()
            return ast.BoolOp(op=op, values=[ast.UnaryOp(op=ast.Not(), operand=v) for v in n.operand.values])
        return n

    def visit_If(self, n):
        self.generic_visit(n)
        if not n.orelse and isinstance(n.test, ast.BoolOp) and isinstance(n.test.op, ast.And) and len(n.test.values) == 2:
            inner = ast.If(test=n.test.values[1], body=n.body, orelse=[])
            return ast.If(test=n.test.values[0], body=[inner], orelse=[])
        return n


def desugar_tree(tree):
    from .astutil import desugar_comprehensions
    for node in ast.walk(tree):
        for f in ("body",):
            b = getattr(node, f, None)
            if isinstance(b, list):
                for i, s in enumerate(b):
                    if isinstance(s, ast.FunctionDef):
                        b[i] = desugar_comprehensions(s)
    return tree



MODES = ("rename", "swap", "both", "noelse", "temps", "keys", "desugar")


def transform_tree(mode, tree):
    if mode in ("rename", "both"):
        tree = Renamer().visit(tree)
    if mode in ("swap", "both"):
        tree = Swapper().visit(tree)
    if mode == "noelse":
        tree = NoElse().visit(tree)
    if mode == "temps":
        tree = Temps().visit(tree)
    if mode == "keys":
        tree = Keys().visit(tree)
    if mode == "desugar":
        tree = desugar_tree(tree)
    ast.fix_missing_locations(tree)
    return tree


def transform_package(mode, src_pkg, dst_pkg):
    """copy the package directory src_pkg to dst_pkg with every module rewritten; returns the number of files"""
    if os.path.exists(dst_pkg):
        shutil.rmtree(dst_pkg)
    shutil.copytree(src_pkg, dst_pkg, ignore=shutil.ignore_patterns("__pycache__"))
    n = 0
    for root, _, files in os.walk(dst_pkg):
        for f in files:
            if not f.endswith(".py"):
                continue
            p = os.path.join(root, f)
            new = ast.unparse(transform_tree(mode, ast.parse(open(p, encoding="utf-8").read()))) + "\n"
            compile(new, p, "exec")
            open(p, "w", encoding="utf-8").write(new)
            n += 1
    return n
