"""Mechanical behaviour-preserving refactorings of the whole package, used to test the rules for name / shape
sensitivity (none of them may change a verdict; each mode was confirmed on the pinned suite: same tests pass):
  rename   every local variable / loop variable / comprehension variable of every function gets a suffix
  swap     every `if c: A else: B` (both arms non-empty) becomes `if not c: B else: A`
  both     the two together
  noelse   `if c: …; return  else: B`  ->  `if c: …; return` followed by B
  temps    `return <call>` / `self.a = <call>`  ->  through a temporary
  keys     `k in d.keys()` -> `k in d`; De Morgan; `if a and b:` (no else) -> nested ifs
  desugar  statement-level list comprehensions -> explicit loops
CLI: tools/mech_refactor.py <mode> <out dir> (copies <repo>/efootprint to <out dir>/efootprint, transformed)."""
import ast, os, shutil, sys

SUFFIX = "_rn"


def locals_to_rename(fn):
    stored, banned = set(), set()
    params = {a.arg for a in fn.args.args + fn.args.kwonlyargs + fn.args.posonlyargs}
    if fn.args.vararg:
        params.add(fn.args.vararg.arg)
    if fn.args.kwarg:
        params.add(fn.args.kwarg.arg)
    for n in ast.walk(fn):
        if isinstance(n, ast.Name) and isinstance(n.ctx, (ast.Store, ast.Del)):
            stored.add(n.id)
        elif isinstance(n, (ast.Global, ast.Nonlocal)):
            banned |= set(n.names)
        elif isinstance(n, (ast.Import, ast.ImportFrom)):
            banned |= {(a.asname or a.name).split(".")[0] for a in n.names}
        elif isinstance(n, (ast.FunctionDef, ast.Lambda, ast.AsyncFunctionDef)) and n is not fn:
            a = n.args
            banned |= {x.arg for x in a.args + a.kwonlyargs + a.posonlyargs}
            if a.vararg:
                banned.add(a.vararg.arg)
            if a.kwarg:
                banned.add(a.kwarg.arg)
            if not isinstance(n, ast.Lambda):
                banned.add(n.name)
        elif isinstance(n, ast.ClassDef):
            banned.add(n.name)
        elif isinstance(n, ast.ExceptHandler) and n.name:
            banned.add(n.name)
        elif isinstance(n, ast.Call) and isinstance(n.func, ast.Name) and n.func.id in ("locals", "vars", "eval", "exec"):
            return set()
    return {x for x in stored - params - banned if not x.startswith("__") and x != "_"}


class Renamer(ast.NodeTransformer):
    def __init__(self):
        self.stack = []

    def visit_FunctionDef(self, fn):
        outer = self.stack[-1] if self.stack else set()
        mine = locals_to_rename(fn) | outer           # free variables of nested functions follow the enclosing rename
        self.stack.append(mine)
        fn.body = [self.visit(s) for s in fn.body]
        fn.args = self.generic_visit(fn.args)
        fn.decorator_list = [self.visit(d) for d in fn.decorator_list]
        self.stack.pop()
        return fn

    def visit_ClassDef(self, c):
        saved, self.stack = self.stack, []
        self.generic_visit(c)
        self.stack = saved
        return c

    def visit_Name(self, n):
        if self.stack and n.id in self.stack[-1]:
            return ast.copy_location(ast.Name(id=n.id + SUFFIX, ctx=n.ctx), n)
        return n


class Swapper(ast.NodeTransformer):
    def visit_If(self, n):
        self.generic_visit(n)
        if n.body and n.orelse:
            t = n.test
            neg = t.operand if isinstance(t, ast.UnaryOp) and isinstance(t.op, ast.Not) else ast.UnaryOp(op=ast.Not(), operand=t)
            return ast.copy_location(ast.If(test=neg, body=n.orelse, orelse=n.body), n)
        return n


class NoElse(ast.NodeTransformer):
    """`if c: …; return/raise/continue/break  else: B`  ->  `if c: …; return`  followed by B"""
    def _block(self, stmts):
        out = []
        for s in stmts:
            s = self.visit(s)
            if isinstance(s, ast.If) and s.body and s.orelse and isinstance(
                    s.body[-1], (ast.Return, ast.Raise, ast.Continue, ast.Break)):
                tail = s.orelse
                s.orelse = []
                out.append(s)
                out.extend(tail)
            else:
                out.append(s)
        return out

    def generic_visit(self, node):
        super().generic_visit(node)
        for f in ("body", "orelse", "finalbody"):
            b = getattr(node, f, None)
            if isinstance(b, list) and b and isinstance(b[0], ast.stmt):
                setattr(node, f, self._block(b))
        return node


class Temps(ast.NodeTransformer):
    """`return <call>` -> `result_tmp = <call>; return result_tmp`;  `self.a = <call>` -> `value_tmp = <call>; self.a = value_tmp`"""
    def _block(self, stmts):
        out = []
        for s in stmts:
            if isinstance(s, ast.Return) and isinstance(s.value, (ast.Call, ast.BinOp)):
                out.append(ast.Assign(targets=[ast.Name(id="result_tmp", ctx=ast.Store())], value=s.value))
                out.append(ast.Return(value=ast.Name(id="result_tmp", ctx=ast.Load())))
            elif isinstance(s, ast.Assign) and len(s.targets) == 1 and isinstance(s.targets[0], ast.Attribute) \
                    and isinstance(s.targets[0].value, ast.Name) and s.targets[0].value.id == "self" \
                    and isinstance(s.value, (ast.Call, ast.BinOp)):
                out.append(ast.Assign(targets=[ast.Name(id="value_tmp", ctx=ast.Store())], value=s.value))
                out.append(ast.Assign(targets=s.targets, value=ast.Name(id="value_tmp", ctx=ast.Load())))
            else:
                out.append(s)
        return out

    def generic_visit(self, node):
        super().generic_visit(node)
        if isinstance(node, ast.Lambda):
            return node
        for f in ("body", "orelse", "finalbody"):
            b = getattr(node, f, None)
            if isinstance(b, list) and b and isinstance(b[0], ast.stmt):
                setattr(node, f, self._block(b))
        return node


class Keys(ast.NodeTransformer):
    """`k in d.keys()` -> `k in d`;  `not (a and b)` -> `not a or not b`;  `if a and b: X` (no else) -> nested ifs"""
    def visit_Compare(self, n):
        self.generic_visit(n)
        if len(n.ops) == 1 and isinstance(n.ops[0], (ast.In, ast.NotIn)):
            c = n.comparators[0]
            if isinstance(c, ast.Call) and isinstance(c.func, ast.Attribute) and c.func.attr == "keys" and not c.args:
                n.comparators = [c.func.value]
        return n

    def visit_UnaryOp(self, n):
        self.generic_visit(n)
        if isinstance(n.op, ast.Not) and isinstance(n.operand, ast.BoolOp):
            op = ast.Or() if isinstance(n.operand.op, ast.And) else ast.And()
            return ast.BoolOp(op=op, values=[ast.UnaryOp(op=ast.Not(), operand=v) for v in n.operand.values])
        return n

    def visit_If(self, n):
        self.generic_visit(n)
        if not n.orelse and isinstance(n.test, ast.BoolOp) and isinstance(n.test.op, ast.And) and len(n.test.values) == 2:
            inner = ast.If(test=n.test.values[1], body=n.body, orelse=[])
            return ast.If(test=n.test.values[0], body=[inner], orelse=[])
        return n


def desugar_tree(tree):
    from .astutil import desugar_comprehensions
    for node in ast.walk(tree):
        for f in ("body",):
            b = getattr(node, f, None)
            if isinstance(b, list):
                for i, s in enumerate(b):
                    if isinstance(s, ast.FunctionDef):
                        b[i] = desugar_comprehensions(s)
    return tree



class Guard(ast.NodeTransformer):
    """a final `if c: A else: B` of a function body (resp. loop body) becomes `if c: A; return` (resp. `continue`)
    followed by B"""
    def _last(self, block, exit_stmt):
        if block and isinstance(block[-1], ast.If) and block[-1].body and block[-1].orelse:
            s = block[-1]
            if not isinstance(s.body[-1], (ast.Return, ast.Raise, ast.Continue, ast.Break)):
                s.body = s.body + [exit_stmt()]
            tail = s.orelse
            s.orelse = []
            return block[:-1] + [s] + tail
        return block

    def visit_FunctionDef(self, node):
        self.generic_visit(node)
        if not any(isinstance(x, (ast.Yield, ast.YieldFrom)) for x in ast.walk(node)):
            node.body = self._last(node.body, lambda: ast.Return(value=None))
        return node

    def visit_For(self, node):
        self.generic_visit(node)
        if not node.orelse:
            node.body = self._last(node.body, lambda: ast.Continue())
        return node


class Comp(ast.NodeTransformer):
    """`x = []` + `for a in A: [if c:] x.append(e)`  ->  `x = [e for a in A if c]` (when x is not otherwise read in the loop)"""
    def _block(self, stmts):
        out, i = [], 0
        while i < len(stmts):
            a = stmts[i]
            b = stmts[i + 1] if i + 1 < len(stmts) else None
            done = False
            if isinstance(a, ast.Assign) and len(a.targets) == 1 and isinstance(a.targets[0], ast.Name) \
                    and isinstance(a.value, ast.List) and not a.value.elts and isinstance(b, ast.For) and not b.orelse:
                name = a.targets[0].id
                gens, cur, ok = [], b, True
                elt = None
                while ok:
                    if isinstance(cur, ast.For) and not cur.orelse and len(cur.body) == 1:
                        gens.append(ast.comprehension(target=cur.target, iter=cur.iter, ifs=[], is_async=0))
                        cur = cur.body[0]
                    elif isinstance(cur, ast.If) and not cur.orelse and len(cur.body) == 1 and gens:
                        gens[-1].ifs.append(cur.test)
                        cur = cur.body[0]
                    elif isinstance(cur, ast.Expr) and isinstance(cur.value, ast.Call) and isinstance(cur.value.func, ast.Attribute) \
                            and cur.value.func.attr == "append" and isinstance(cur.value.func.value, ast.Name) \
                            and cur.value.func.value.id == name and len(cur.value.args) == 1 and gens:
                        elt = cur.value.args[0]
                        break
                    else:
                        ok = False
                uses = sum(1 for x in ast.walk(b) if isinstance(x, ast.Name) and x.id == name)
                if ok and elt is not None and uses == 1:
                    out.append(ast.Assign(targets=a.targets, value=ast.ListComp(elt=elt, generators=gens)))
                    i += 2
                    done = True
            if not done:
                out.append(a)
                i += 1
        return out

    def generic_visit(self, node):
        super().generic_visit(node)
        for f in ("body", "orelse", "finalbody"):
            b = getattr(node, f, None)
            if isinstance(b, list) and b and isinstance(b[0], ast.stmt):
                setattr(node, f, self._block(b))
        return node


class Alias(ast.NodeTransformer):
    """`self.<attr>` read at least twice in a method that never stores into it (nor calls anything named like a setter of
    it) is read once into a local at the top of the method — only for methods without early side effects: the first
    statement must not be a raise / assert and the attribute must be read unconditionally in the first statement that uses it"""
    def visit_FunctionDef(self, node):
        self.generic_visit(node)
        if not node.args.args or node.args.args[0].arg != "self" or node.name.startswith("__"):
            return node
        if any(isinstance(x, (ast.Yield, ast.YieldFrom, ast.Lambda, ast.FunctionDef)) and x is not node for x in ast.walk(node)):
            return node
        stored = set()
        for x in ast.walk(node):
            if isinstance(x, ast.Attribute) and isinstance(x.value, ast.Name) and x.value.id == "self" \
                    and isinstance(x.ctx, (ast.Store, ast.Del)):
                stored.add(x.attr)
        calls_self = any(isinstance(x, ast.Call) and isinstance(x.func, ast.Attribute) and isinstance(x.func.value, ast.Name)
                         and x.func.value.id == "self" for x in ast.walk(node))
        if calls_self or stored:
            return node          # a method call on self, or a store, may change what the attribute returns
        if not node.body or not isinstance(node.body[0], (ast.Assign, ast.Return, ast.Expr)):
            return node
        first = node.body[0]
        counts = {}
        for x in ast.walk(node):
            if isinstance(x, ast.Attribute) and isinstance(x.value, ast.Name) and x.value.id == "self" and isinstance(x.ctx, ast.Load):
                counts[x.attr] = counts.get(x.attr, 0) + 1
        in_first = {x.attr for x in ast.walk(first) if isinstance(x, ast.Attribute) and isinstance(x.value, ast.Name)
                    and x.value.id == "self"}
        # only attributes the first statement reads anyway (so hoisting them does not change which errors can occur)
        chosen = sorted(a for a, c in counts.items() if c >= 2 and a in in_first)[:1]
        if not chosen:
            return node
        a = chosen[0]
        local = f"{a}_alias"

        class R(ast.NodeTransformer):
            def visit_Attribute(self, n):
                self.generic_visit(n)
                if isinstance(n.value, ast.Name) and n.value.id == "self" and n.attr == a and isinstance(n.ctx, ast.Load):
                    return ast.Name(id=local, ctx=ast.Load())
                return n
        node.body = [R().visit(st) for st in node.body]
        node.body.insert(0, ast.Assign(targets=[ast.Name(id=local, ctx=ast.Store())],
                                       value=ast.Attribute(value=ast.Name(id="self", ctx=ast.Load()), attr=a, ctx=ast.Load())))
        return node


MODES = ("rename", "swap", "both", "noelse", "temps", "keys", "desugar", "guard", "comp", "alias", "chain")
CHAIN = ("keys", "swap", "noelse", "guard", "comp", "alias", "temps", "rename")


def transform_tree(mode, tree):
    if mode == "chain":
        for m in CHAIN:
            tree = transform_tree(m, tree)
            tree = ast.parse(ast.unparse(tree))
        return tree
    if mode in ("rename", "both"):
        tree = Renamer().visit(tree)
    if mode in ("swap", "both"):
        tree = Swapper().visit(tree)
    if mode == "noelse":
        tree = NoElse().visit(tree)
    if mode == "temps":
        tree = Temps().visit(tree)
    if mode == "keys":
        tree = Keys().visit(tree)
    if mode == "desugar":
        tree = desugar_tree(tree)
    if mode == "guard":
        tree = Guard().visit(tree)
    if mode == "comp":
        tree = Comp().visit(tree)
    if mode == "alias":
        tree = Alias().visit(tree)
    ast.fix_missing_locations(tree)
    return tree


def transform_package(mode, src_pkg, dst_pkg):
    """copy the package directory src_pkg to dst_pkg with every module rewritten; returns the number of files"""
    if os.path.exists(dst_pkg):
        shutil.rmtree(dst_pkg)
    shutil.copytree(src_pkg, dst_pkg, ignore=shutil.ignore_patterns("__pycache__"))
    n = 0
    for root, _, files in os.walk(dst_pkg):
        for f in files:
            if not f.endswith(".py"):
                continue
            p = os.path.join(root, f)
            new = ast.unparse(transform_tree(mode, ast.parse(open(p, encoding="utf-8").read()))) + "\n"
            compile(new, p, "exec")
            open(p, "w", encoding="utf-8").write(new)
            n += 1
    return n
