"""Self-test variants: text edits on a scratch copy of efootprint/. See selftest.py.

`expect: fires`  — a realistic behaviour-breaking edit (still compiles); the named rule must report it and the
                   report must contain every string of `names`.
`expect: silent` — a behaviour-preserving edit of the syntax the rule looks at; no new finding, nothing undecided.
"""

V = []


def mut(name, rules, edits, names, **kw):
    V.append(dict(name=name, rules=rules, edits=edits, names=names, expect="fires", **kw))


def twin(name, rules, edits, **kw):
    V.append(dict(name=name, rules=rules, edits=edits, names=[], expect="silent", **kw))


JOB = "core/usage/job.py"
UP = "core/usage/usage_pattern.py"
SB = "core/hardware/server_base.py"
ST = "core/hardware/storage.py"
MO = "abstract_modeling_classes/modeling_object.py"
MU = "abstract_modeling_classes/modeling_update.py"
EO = "abstract_modeling_classes/explainable_objects.py"
EB = "abstract_modeling_classes/explainable_object_base_class.py"
LL = "abstract_modeling_classes/list_linked_to_modeling_obj.py"
OL = "abstract_modeling_classes/object_linked_to_modeling_obj.py"
ED = "abstract_modeling_classes/explainable_object_dict.py"
CM = "abstract_modeling_classes/contextual_modeling_object_attribute.py"
ORD = "core/all_classes_in_order.py"
VS = "builders/services/video_streaming.py"
WA = "builders/services/web_application.py"
GA = "builders/services/generative_ai_ecologits.py"
NW = "core/hardware/network.py"
IH = "core/hardware/infra_hardware.py"
SYS = "core/system.py"
UJS = "core/usage/usage_journey_step.py"
UJ = "core/usage/usage_journey.py"
CNO = "core/usage/compute_nb_occurrences_in_parallel.py"
J2S = "api_utils/json_to_system.py"
TB = "builders/time_builders.py"
GPU = "core/hardware/gpu_server.py"
BCS = "builders/hardware/boavizta_cloud_server.py"

# ------------------------------------------------------------------------------------------------ R-CALC / R-SLOT
mut("calc: ram_needed dropped from VideoStreamingJob.calculated_attributes", ["R-CALC"],
    [(VS, '["request_duration", "dynamic_bitrate", "data_transferred", "compute_needed", "ram_needed"]',
      '["request_duration", "dynamic_bitrate", "data_transferred", "compute_needed"]')],
    ["VideoStreamingJob", "ram_needed"])
mut("calc: listed attribute without rule", ["R-CALC"],
    [(UP, '"devices_energy_footprint", "devices_fabrication_footprint", "energy_footprint",',
      '"devices_energy_footprint", "devices_fabrication_footprint", "energy_footprint", "devices_power",')],
    ["UsagePattern", "devices_power"])
twin("calc: list moved to a class constant", ["R-CALC", "R-ORDER"],
     [(NW, '''    @property
    def calculated_attributes(self):
        return ["energy_footprint"]''', '''    CALCULATED = ["energy_footprint"]

    @property
    def calculated_attributes(self):
        return self.CALCULATED''')])
mut("slot: Server added as an extra slot", ["R-SLOT"],
    [(ORD, "Network, ServerBase, Storage, System]", "Network, Server, ServerBase, Storage, System]")],
    ["Server", "2 slots"])
mut("slot: JobBase slot narrowed to Job", ["R-SLOT"],
    [(ORD, "UsagePattern, Service, JobBase,", "UsagePattern, Service, Job,")], ["0 slots"])

# ------------------------------------------------------------------------------------------------ R-ORDER
mut("order: devices_energy computed before nb_usage_journeys_in_parallel", ["R-ORDER"],
    [(UP, '["utc_hourly_usage_journey_starts", "nb_usage_journeys_in_parallel", "devices_energy",',
      '["utc_hourly_usage_journey_starts", "devices_energy", "nb_usage_journeys_in_parallel",')],
    ["UsagePattern.update_devices_energy", "nb_usage_journeys_in_parallel"])
# Storage reads only *inputs* of its server (PUE, carbon intensity) and calculated attributes of jobs: the relative
# order of the ServerBase and Storage slots is immaterial (the design's calibration claim was wrong; the rule is right)
twin("order: ServerBase and Storage swapped in CANONICAL_COMPUTATION_ORDER", ["R-ORDER"],
     [(ORD, "Network, ServerBase, Storage, System]", "Network, Storage, ServerBase, System]")])
mut("order: JobBase and ServerBase swapped in CANONICAL_COMPUTATION_ORDER", ["R-ORDER"],
    [(ORD, "UsagePattern, Service, JobBase,\n                               Network, ServerBase,",
      "UsagePattern, Service, ServerBase,\n                               Network, JobBase,")],
    ["update_hour_by_hour_ram_need", "hourly_avg_occurrences_across_usage_patterns"])
mut("order: instances_energy listed before nb_of_instances", ["R-ORDER"],
    [(SB, '''"raw_nb_of_instances", "nb_of_instances",
                "instances_fabrication_footprint", "instances_energy", "energy_footprint"]''',
      '''"raw_nb_of_instances", "instances_energy", "nb_of_instances",
                "instances_fabrication_footprint", "energy_footprint"]''')],
    ["update_instances_energy", "nb_of_instances"])
twin("order: two independent attributes swapped", ["R-ORDER", "R-ACYC"],
     [(UP, '"devices_energy_footprint", "devices_fabrication_footprint",',
       '"devices_fabrication_footprint", "devices_energy_footprint",')])
mut("order: network slot moved before jobs", ["R-ORDER"],
    [(ORD, "UsagePattern, Service, JobBase,\n                               Network,", "UsagePattern, Service, Network,\n                               JobBase,")],
    ["Network.update_energy_footprint", "hourly_data_transferred_per_usage_pattern"])

# ------------------------------------------------------------------------------------------------ R-REACH
mut("reach: container chain dropped on link re-pointing (revert of fix F12)", ["R-REACH"],
    [(MO, '''        mod_objs_computation_chain = (input_value.mod_objs_computation_chain + old_value.mod_objs_computation_chain
                                      + self.mod_objs_computation_chain)''',
      '''        mod_objs_computation_chain = input_value.mod_objs_computation_chain + old_value.mod_objs_computation_chain''')],
    ["GenAIJob.update_compute_needed", "GenAIModel.server"])
mut("reach: step no longer lists networks and jobs no longer list networks", ["R-REACH"],
    [(UJS, "return self.jobs + self.networks", "return self.jobs"),
     (JOB, '''    def modeling_objects_whose_attributes_depend_directly_on_me(self) -> List[ModelingObject]:
        return self.networks''', '''    def modeling_objects_whose_attributes_depend_directly_on_me(self) -> List[ModelingObject]:
        return []''')],
    ["Network.update_energy_footprint"])
mut("reach: server no longer lists its storage as dependant", ["R-REACH"],
    [(SB, "        return [self.storage]", "        return []")], ["Storage.update_"])
twin("reach: dependants property refactored through a local", ["R-REACH"],
     [(UJS, "        return self.jobs + self.networks", "        out = self.jobs + self.networks\n        return out")])

# ------------------------------------------------------------------------------------------------ R-PROV
mut("prov: duration_in_full_hours built without parent (revert of fix F1)", ["R-PROV"],
    [(JOB, '''                f"{self.name} duration in full hours", left_parent=self.request_duration,
                operator="rounded up to full hours")''', '''                f"{self.name} duration in full hours")''')],
    ["duration_in_full_hours", "request_duration"])
mut("prov: storage dumps forget data_storage_duration", ["R-PROV"],
    [(ST, '''                left_parent=self.storage_needed,
                right_parent=self.data_storage_duration, operator="shift by storage duration and negate")''',
      '''                left_parent=self.storage_needed, operator="shift by storage duration and negate")''')],
    ["data_storage_duration"])
mut("prov: serverless branch drops the logical dependency on server_type", ["R-PROV"],
    [(SB, '''        hour_by_hour_nb_of_instances = self.raw_nb_of_instances.copy()

        self.nb_of_instances = hour_by_hour_nb_of_instances.generate_explainable_object_with_logical_dependency(
            self.server_type).set_label(f"Hourly number of {self.name} instances")''',
      '''        hour_by_hour_nb_of_instances = self.raw_nb_of_instances.copy()

        self.nb_of_instances = hour_by_hour_nb_of_instances.set_label(f"Hourly number of {self.name} instances")''')],
    ["nb_of_instances", "server_type"])
mut("prov: devices_energy rebuilt from raw values without parents", ["R-PROV"],
    [(UP, '''        devices_energy = (self.nb_usage_journeys_in_parallel * total_devices_energy_spent_over_one_full_hour).to(u.kWh)''',
      '''        devices_energy = ExplainableHourlyQuantities(
            (self.nb_usage_journeys_in_parallel * total_devices_energy_spent_over_one_full_hour).to(u.kWh).value,
            "devices energy")''')],
    ["devices_energy"])
mut("prov: average occurrences forget event_duration", ["R-PROV"],
    [(CNO, '''            nb_avg_hourly_occurrences_in_parallel, left_parent=hourly_occurrences_starts, right_parent=event_duration,
            operator=f"hourly occurrences average")''',
      '''            nb_avg_hourly_occurrences_in_parallel, left_parent=hourly_occurrences_starts,
            operator=f"hourly occurrences average")''')],
    ["compute_nb_avg_hourly_occurrences"])
mut("prov: fixed on-premise branch forgets fixed_nb_of_instances", ["R-PROV"],
    [(SB, '''                        "Nb of instances",
                        left_parent=self.raw_nb_of_instances,
                        right_parent=self.fixed_nb_of_instances
                    )''', '''                        "Nb of instances",
                        left_parent=self.raw_nb_of_instances
                    )''')],
    ["fixed_nb_of_instances"])
mut("prov: pixel count forgets the resolution", ["R-PROV"],
    [(VS, '''            left_parent=self.resolution, operator="pixel count computation", source=Sources.USER_DATA)''',
      '''            operator="pixel count computation", source=Sources.USER_DATA)''')],
    ["resolution"])
mut("prov: web application cpu looked up without recording the technology", ["R-PROV"],
    [(WA, '''            tech_row['avg_cpu_core_per_request'] * u.cpu_core, "",
            right_parent=self.service.technology,
            left_parent=self.implementation_details,''', '''            tech_row['avg_cpu_core_per_request'] * u.cpu_core, "",
            left_parent=self.implementation_details,''')],
    ["technology"])
twin("prov: locals renamed and expression split", ["R-PROV", "R-LABEL", "R-WRITE"],
     [(UP, '''        energy_footprint = (self.devices_energy * self.country.average_carbon_intensity).to(u.kg)
        
        self.devices_energy_footprint = energy_footprint.set_label(f"Devices energy footprint of {self.name}")''',
       '''        intensity = self.country.average_carbon_intensity
        ef = self.devices_energy * intensity
        ef_kg = ef.to(u.kg)
        self.devices_energy_footprint = ef_kg.set_label(f"Devices energy footprint of {self.name}")''')])
twin("prov: operands of a product swapped", ["R-PROV"],
     [(IH, "energy_footprint = (self.instances_energy * self.average_carbon_intensity)",
       "energy_footprint = (self.average_carbon_intensity * self.instances_energy)")])
twin("prov: sub-expression moved into a helper property", ["R-PROV", "R-ORDER", "R-WRITE"],
     [(NW, '''            up_network_consumption = (
                        self.bandwidth_energy_intensity * hourly_data_transferred_per_up[up]).to(u.kWh).set_label(
                f"{up.name} network energy consumption")''',
       '''            up_network_consumption = self.consumption_of(hourly_data_transferred_per_up[up]).set_label(
                f"{up.name} network energy consumption")'''),
      (NW, '''    def update_energy_footprint(self):''', '''    def consumption_of(self, data):
        return (self.bandwidth_energy_intensity * data).to(u.kWh)

    def update_energy_footprint(self):''')])

# ------------------------------------------------------------------------------------------------ R-WRITE / R-LABEL / R-INPLACE / R-ACYC
mut("write: update_instances_energy caches a second attribute", ["R-WRITE"],
    [(SB, '''        self.instances_energy = server_power.to(u.kWh).set_label(
            f"Hourly energy consumed by {self.name} instances")''',
      '''        self.server_power = server_power
        self.instances_energy = server_power.to(u.kWh).set_label(
            f"Hourly energy consumed by {self.name} instances")''')],
    ["update_instances_energy", "server_power"])
mut("write: network rule stores a total on the usage pattern", ["R-WRITE"],
    [(NW, '''            energy_footprint += up_network_consumption * up.country.average_carbon_intensity''',
      '''            up.network_consumption = up_network_consumption
            energy_footprint += up_network_consumption * up.country.average_carbon_intensity''')],
    ["foreign store"])
mut("write: cumulative storage computed on the delta frame itself", ["R-WRITE"],
    [(ST, "            storage_delta_df = self.storage_delta.value.copy()", "            storage_delta_df = self.storage_delta.value")],
    ["frame store", "storage_delta"])
mut("label: label dropped from the energy footprint", ["R-LABEL"],
    [(IH, '''        self.energy_footprint = energy_footprint.to(u.kg).set_label(f"Hourly {self.name} energy footprint")''',
      '''        self.energy_footprint = energy_footprint.to(u.kg)''')],
    ["energy_footprint"])
mut("inplace: fixed instance count rounded up in place", ["R-INPLACE"],
    [(SB, "                if max_nb_of_instances > self.fixed_nb_of_instances:",
      "                if max_nb_of_instances > self.fixed_nb_of_instances.ceil():")],
    ["fixed_nb_of_instances", "ceil"])
mut("acyc: rule reads the attribute it computes", ["R-ACYC"],
    [(ST, "        self.power = (self.power_per_storage_capacity * self.storage_capacity).set_label(f\"Power of {self.name}\")",
      "        self.power = (self.power_per_storage_capacity * self.storage_capacity + self.power).set_label(f\"Power of {self.name}\")")],
    ["Storage.update_power", "self.power"])


# ------------------------------------------------------------------------------------------------ operator layer
mut("oprec: EQ.__rsub__ records its operands in the wrong order", ["R-OPREC"],
    [(EO, 'return ExplainableQuantity(other.value - self.value, "", other, self, "-")',
      'return ExplainableQuantity(other.value - self.value, "", self, other, "-")')],
    ["ExplainableQuantity.__rsub__"])
mut("oprec: EQ.__truediv__ records a product", ["R-OPREC"],
    [(EO, 'return ExplainableQuantity(self.value / other.value, "", self, other, "/")',
      'return ExplainableQuantity(self.value / other.value, "", self, other, "*")')],
    ["ExplainableQuantity.__truediv__"])
mut("oprec: EHQ.__sub__ computes a sum", ["R-OPREC"],
    [(EO, 'return ExplainableHourlyQuantities(self.value - other.value, "", self, other, "-")',
      'return ExplainableHourlyQuantities(self.value + other.value, "", self, other, "-")')],
    ["ExplainableHourlyQuantities.__sub__"])
twin("oprec: EHQ.__add__ inlines its local", ["R-OPREC", "R-COMM", "R-FILL"],
     [(EO, '''            df_sum = self.value.add(other.value, fill_value=0 * self.unit)
            return ExplainableHourlyQuantities(df_sum, "", self, other, "+")''',
       '''            return ExplainableHourlyQuantities(self.value.add(other.value, fill_value=0 * self.unit), "", self, other, "+")''')])
mut("oppar: np_compared_with forgets the compared series as parent", ["R-OPPAR"],
    [(EO, '''            left_parent=self,
            right_parent=right_parent,
            operator=f"{comparator} compared with"''', '''            left_parent=self,
            operator=f"{comparator} compared with"''')],
    ["np_compared_with"])
mut("oppar: EHQ.max returns a parentless quantity", ["R-OPPAR"],
    [(EO, 'return ExplainableQuantity(self.value["value"].max(), left_parent=self, operator="max")',
      'return ExplainableQuantity(self.value["value"].max(), "max")')],
    ["ExplainableHourlyQuantities.max"])
mut("oppar: shift forgets the duration", ["R-OPPAR"],
    [(EO, '''left_parent=self, right_parent=shift_duration,
            operator=f"shifted by")''', '''left_parent=self,
            operator=f"shifted by")''')],
    ["return_shifted_hourly_quantities"])
mut("comm: quantity times empty returns the quantity", ["R-COMM"],
    [(EO, '''        elif isinstance(other, EmptyExplainableObject):
            return EmptyExplainableObject(left_parent=self, right_parent=other, operator="*")
        elif isinstance(other, ExplainableQuantity):
            return ExplainableQuantity(self.value * other.value, "", self, other, "*")''',
      '''        elif isinstance(other, EmptyExplainableObject):
            return self
        elif isinstance(other, ExplainableQuantity):
            return ExplainableQuantity(self.value * other.value, "", self, other, "*")''')],
    ["identity", "EQ"])
mut("comm: empty plus hourly raises", ["R-COMM"],
    [(EO, '''        if isinstance(other, ExplainableObject):
            return other.__add__(self)
        elif other == 0:
            return EmptyExplainableObject(left_parent=self, operator="+ 0")''',
      '''        if isinstance(other, ExplainableQuantity):
            return other.__add__(self)
        elif other == 0:
            return EmptyExplainableObject(left_parent=self, operator="+ 0")''')],
    ["EMPTY", "EHQ"])
twin("comm: dispatch branches of EQ.__mul__ reordered", ["R-COMM", "R-OPREC"],
     [(EO, '''        elif isinstance(other, ExplainableQuantity):
            return ExplainableQuantity(self.value * other.value, "", self, other, "*")
        elif isinstance(other, ExplainableHourlyQuantities):
            return other.__mul__(self)
        else:
            raise ValueError(f"Can only make operation with another ExplainableQuantity, not with {type(other)}")

    def __truediv__''', '''        elif isinstance(other, ExplainableHourlyQuantities):
            return other.__mul__(self)
        elif isinstance(other, ExplainableQuantity):
            return ExplainableQuantity(self.value * other.value, "", self, other, "*")
        else:
            raise ValueError(f"Can only make operation with another ExplainableQuantity, not with {type(other)}")

    def __truediv__''')])
mut("pure: addition converts its right operand in place", ["R-PURE"],
    [(EO, '''            df_sum = self.value.add(other.value, fill_value=0 * self.unit)''',
      '''            other.value["value"] = other.value["value"].pint.to(self.unit)
            df_sum = self.value.add(other.value, fill_value=0 * self.unit)''')],
    ["ExplainableHourlyQuantities.__add__", "other.value"])
mut("fill: hourly product without fill_value", ["R-FILL"],
    [(EO, 'self.value.mul(other.value, fill_value=0)', 'self.value.mul(other.value)')], ["__mul__"])
mut("fill: hourly sum as a bare +", ["R-FILL"],
    [(EO, "            df_sum = self.value.add(other.value, fill_value=0 * self.unit)",
      "            df_sum = self.value + other.value")], ["__add__"])
mut("fill: occurrences in parallel summed with a bare +", ["R-FILL"],
    [(CNO, '''            nb_avg_hourly_occurrences_in_parallel = nb_avg_hourly_occurrences_in_parallel.add(
                hourly_occurrences_starts.value.shift(hour_shift, freq="h"), fill_value=0)''',
      '''            nb_avg_hourly_occurrences_in_parallel = (
                nb_avg_hourly_occurrences_in_parallel + hourly_occurrences_starts.value.shift(hour_shift, freq="h"))''')],
    ["compute_nb_avg_hourly_occurrences"])
mut("shift: positional shift in return_shifted_hourly_quantities", ["R-SHIFT"],
    [(EO, 'self.value.shift(shift_duration_in_hours, freq="h")', 'self.value.shift(shift_duration_in_hours)')],
    ["return_shifted_hourly_quantities"])
mut("shift: positional shift of the storage dumps", ["R-SHIFT"],
    [(ST, "periods=storage_duration_in_hours, freq='h')", "periods=storage_duration_in_hours)")],
    ["automatic_storage_dumps_after_storage_duration"])
mut("raw2: np_compared_with pairs series by position (revert of fix F2)", ["R-RAW2"],
    [(EO, '''            self_values = self.value["value"].pint.magnitude.reindex(result_index, fill_value=0).to_numpy()
            compared_values = compared_object.value["value"].pint.to(self.unit).pint.magnitude.reindex(
                result_index, fill_value=0).to_numpy()''',
      '''            self_values = self.value["value"].values.data.to_numpy()
            compared_values = compared_object.value["value"].values.data.to_numpy()''')],
    ["np_compared_with", "unaligned"])
mut("raw2: compared series no longer converted to the receiver's unit", ["R-RAW2"],
    [(EO, 'compared_object.value["value"].pint.to(self.unit).pint.magnitude.reindex(',
      'compared_object.value["value"].pint.magnitude.reindex(')],
    ["np_compared_with", "unit"])
mut("summary: EHQ.ceil made in place", ["R-SUMMARY"],
    [(EO, '''    def ceil(self):
        return ExplainableHourlyQuantities(
            pd.DataFrame(
                {"value": pint_pandas.PintArray(np.ceil(self.value["value"].values.data), dtype=self.unit)},
                index=self.value.index),
            left_parent=self, operator="ceil")''', '''    def ceil(self):
        self.value["value"] = pint_pandas.PintArray(np.ceil(self.value["value"].values.data), dtype=self.unit)
        return self''')],
    ["ExplainableHourlyQuantities.ceil"])

# ------------------------------------------------------------------------------------------------ transactions
TXN_FIXED = '''        self.recomputed_values = []
        try:
            if self.simulation_date is not None:
                self.make_simulation_specific_operations()

            self.apply_changes()
            for new_sourcevalue in self.new_sourcevalues:
                mod_obj_container = new_sourcevalue.modeling_obj_container
                mod_obj_container.check_belonging_to_authorized_values(
                    new_sourcevalue.attr_name_in_mod_obj_container, new_sourcevalue, mod_obj_container.list_values(),
                    mod_obj_container.conditional_list_values(), mod_obj_container.attributes_with_depending_values())
            self.recompute_attributes()
        except Exception:
            self.rollback()
            raise
'''
TXN_UNFIXED = '''        self.recomputed_values = []
        if self.simulation_date is not None:
            self.make_simulation_specific_operations()

        self.apply_changes()
        for new_sourcevalue in self.new_sourcevalues:
            mod_obj_container = new_sourcevalue.modeling_obj_container
            mod_obj_container.check_belonging_to_authorized_values(
                new_sourcevalue.attr_name_in_mod_obj_container, new_sourcevalue, mod_obj_container.list_values(),
                mod_obj_container.conditional_list_values(), mod_obj_container.attributes_with_depending_values())
        self.recompute_attributes()
'''
mut("txn: no rollback on failure (revert of fix F3-F5): allowed-values check", ["R-TXN"], [(MU, TXN_FIXED, TXN_UNFIXED)],
    ["check_belonging_to_authorized_values"])
mut("txn: no rollback on failure (revert of fix F3-F5): recomputation", ["R-TXN"], [(MU, TXN_FIXED, TXN_UNFIXED)],
    ["update_function"])
mut("txn: handler swallows the restore", ["R-TXN"],
    [(MU, "        except Exception:\n            self.rollback()\n            raise\n",
      "        except Exception:\n            raise\n")], ["unprotected"])
mut("txn: recompute_attributes only publishes its list at the end", ["R-TXN"],
    [(MU, "        self.recomputed_values = recomputed_values = []", "        recomputed_values = []")],
    ["partial progress"])
mut("txn: rollback forgets the filtered hourly quantities", ["R-TXN"],
    [(MU, "            + list(zip(self.hourly_quantities_to_filter, self.filtered_hourly_quantities))\n", "")],
    ["filtered_hourly_quantities"])
mut("txn: allowed-values check moved after the try block", ["R-TXN"],
    [(MU, '''            self.recompute_attributes()
        except Exception:
            self.rollback()
            raise
''', '''            self.recompute_attributes()
        except Exception:
            self.rollback()
            raise
        for new_sourcevalue in self.new_sourcevalues:
            new_sourcevalue.modeling_obj_container.check_belonging_to_authorized_values(
                new_sourcevalue.attr_name_in_mod_obj_container, new_sourcevalue,
                new_sourcevalue.modeling_obj_container.list_values(),
                new_sourcevalue.modeling_obj_container.conditional_list_values(),
                new_sourcevalue.modeling_obj_container.attributes_with_depending_values())
''')], ["check_belonging_to_authorized_values"])
mut("txn: simulation no longer resets at the end", ["R-TXN"],
    [(MU, "        if simulation_date is not None:\n            self.reset_values()\n", "")], ["reset_values"])
twin("txn: allowed-values check hoisted before apply_changes inside the try", ["R-TXN"],
     [(MU, '''            self.apply_changes()
            for new_sourcevalue in self.new_sourcevalues:''', '''            self.apply_changes()
            logger.debug("changes applied")
            for new_sourcevalue in self.new_sourcevalues:''')])
mut("mirror: reset_values puts the new values back", ["R-MIRROR"],
    [(MU, '''                new_value.replace_in_mod_obj_container_without_recomputation(previous_value)
            self.updated_values_set = False''', '''                previous_value.replace_in_mod_obj_container_without_recomputation(new_value)
            self.updated_values_set = False''')], ["reset"])
mut("mirror: set_updated_values loses its guard polarity", ["R-MIRROR"],
    [(MU, "        if not self.updated_values_set:", "        if self.updated_values_set:")], ["guard"])
mut("zip: empty results skipped by recompute_attributes", ["R-ZIP"],
    [(MU, '''            recomputed_value = getattr(modeling_obj_container, attr_name_in_mod_obj_container)
            recomputed_values.append(recomputed_value)''', '''            recomputed_value = getattr(modeling_obj_container, attr_name_in_mod_obj_container)
            if isinstance(recomputed_value, EmptyExplainableObject):
                continue
            recomputed_values.append(recomputed_value)''')], ["recomputed_values"])
mut("zip: segments concatenated in different orders", ["R-ZIP"],
    [(MU, "                + self.replaced_ancestors_copies + self.recomputed_values)",
      "                + self.recomputed_values + self.replaced_ancestors_copies)")], ["segment"])
mut("zip: filtered quantities only appended when non-empty", ["R-ZIP"],
    [(MU, "            self.filtered_hourly_quantities.append(new_value)",
      "            if len(new_value) > 0:\n                self.filtered_hourly_quantities.append(new_value)")],
    ["filtered_hourly_quantities"], undecided_ok=True)
mut("snap: before-edit totals taken after the changes were applied", ["R-SNAP"],
    [(MU, '''        if self.changes_list and self.system:
            self.system.previous_total_energy_footprints_sum_over_period = (
                self.system.total_energy_footprint_sum_over_period)
            self.system.previous_total_fabrication_footprints_sum_over_period = \\
                self.system.total_fabrication_footprint_sum_over_period
            self.system.previous_change = changes_list
            self.system.all_changes += changes_list
''', ""),
     (MU, '''        self.updated_values_set = True

        if self.simulation_date is not None:
            self.link_simulated_and_baseline_twins()''', '''        self.updated_values_set = True
        if self.changes_list and self.system:
            self.system.previous_total_energy_footprints_sum_over_period = (
                self.system.total_energy_footprint_sum_over_period)
            self.system.previous_total_fabrication_footprints_sum_over_period = \\
                self.system.total_fabrication_footprint_sum_over_period
            self.system.previous_change = changes_list
            self.system.all_changes += changes_list

        if self.simulation_date is not None:
            self.link_simulated_and_baseline_twins()''')], ["after mutation"])
mut("snap: creation totals taken before the first computation", ["R-SNAP"],
    [(SYS, '''        mod_obj_computation_chain_excluding_self = self.mod_objs_computation_chain[1:]''',
      '''        self.initial_total_energy_footprints_sum_over_period = self.total_energy_footprint_sum_over_period
        mod_obj_computation_chain_excluding_self = self.mod_objs_computation_chain[1:]'''),
     (SYS, '''        self.initial_total_energy_footprints_sum_over_period = self.total_energy_footprint_sum_over_period
        self.initial_total_fabrication''', '''        self.initial_total_fabrication''')], ["before computation"])

# ------------------------------------------------------------------------------------------------ entry / bookkeeping
mut("entry: GenAIModel.__setattr__ handles model_name itself", ["R-ENTRY"],
    [(GA, '''        super().__setattr__(name, input_value, check_input_validity=check_input_validity)

    def __init__(self, name: str, provider: ExplainableObject, model_name''',
      '''        if name == "model_name" and self.trigger_modeling_updates:
            self.__dict__[name] = input_value
            return
        super().__setattr__(name, input_value, check_input_validity=check_input_validity)

    def __init__(self, name: str, provider: ExplainableObject, model_name''')], ["GenAIModel.__setattr__"])
mut("entry: a rule stores through __dict__", ["R-ENTRY"],
    [(UJ, '''        self.duration = user_time_spent_sum.set_label(f"Duration of {self.name}")''',
      '''        self.duration = user_time_spent_sum.set_label(f"Duration of {self.name}")
        self.__dict__["last_duration"] = self.duration''')], ["UsageJourney.update_duration"])
mut("entry: wrapper keeps assignments for itself", ["R-ENTRY"],
    [(CM, "            setattr(self._value, name, input_value)  # Use `setattr` instead of `__setattr__`",
      "            super().__setattr__(name, input_value)")], ["ContextualModelingObjectAttribute.__setattr__"])
mut("entry: direct-store branch widened to every attribute", ["R-ENTRY"],
    [(MO, "        elif name in self.calculated_attributes or not self.trigger_modeling_updates:",
      "        elif True:")], ["ModelingObject.__setattr__"])
mut("edge: a rule edits the children list itself", ["R-EDGE"],
    [(ED, '''        super().__setitem__(key, value)''', '''        super().__setitem__(key, value)
        value.direct_children_with_id = []''')], ["direct_children_with_id"])
mut("edge: deregistration only for values with children", ["R-EDGE"],
    [(EB, "        if self.modeling_obj_container is not None:\n            for direct_ancestor_with_id in self.direct_ancestors_with_id:\n                direct_ancestor_with_id.remove_child",
      "        if self.modeling_obj_container is not None and self.direct_children_with_id:\n            for direct_ancestor_with_id in self.direct_ancestors_with_id:\n                direct_ancestor_with_id.remove_child")],
    ["deregistration"])
mut("guard: self_delete detaches before checking", ["R-GUARD"],
    [(MO, '''        if self.modeling_obj_containers:
            raise PermissionError(
                f"You can’t delete {self.name} because "
                f"{','.join([mod_obj.name for mod_obj in self.modeling_obj_containers])} have it as attribute.")

        for attr in self.mod_obj_attributes:
            attr.set_modeling_obj_container(None, None)
''', '''        for attr in self.mod_obj_attributes:
            attr.set_modeling_obj_container(None, None)

        if self.modeling_obj_containers:
            raise PermissionError(
                f"You can’t delete {self.name} because "
                f"{','.join([mod_obj.name for mod_obj in self.modeling_obj_containers])} have it as attribute.")
''')], ["self_delete"])
mut("guard: system links before checking exclusivity", ["R-GUARD"],
    [(SYS, '''        self.check_no_object_to_link_is_already_linked_to_another_system(usage_patterns)
        self.usage_patterns = ListLinkedToModelingObj(usage_patterns)''',
      '''        self.usage_patterns = ListLinkedToModelingObj(usage_patterns)
        self.check_no_object_to_link_is_already_linked_to_another_system(usage_patterns)''')], ["System.__init__"])
mut("rev: network caches its usage patterns", ["R-REV"],
    [(NW, '''    @property
    def usage_patterns(self):
        return self.modeling_obj_containers''', '''    @property
    def usage_patterns(self):
        if getattr(self, "_ups", None) is None:
            self.__dict__["_ups"] = self.modeling_obj_containers
        return self._ups''')], ["Network.usage_patterns"])
mut("rev: containers no longer filtered on attachment", ["R-REV"],
    [(MO, '''             for contextual_mod_obj_container in self.contextual_modeling_obj_containers
             if contextual_mod_obj_container.modeling_obj_container is not None]))''',
      '''             for contextual_mod_obj_container in self.contextual_modeling_obj_containers]))''')],
    ["modeling_obj_containers"])
mut("pureview: to_json rounds the stored value in place", ["R-PUREVIEW"],
    [(EO, '''        output_dict = {
            "label": self.label,
            "values": list(''', '''        self.round(rounding_depth)
        output_dict = {
            "label": self.label,
            "values": list(''')], ["to_json"])
mut("pureview: a system view converts and stores", ["R-PUREVIEW"],
    [(SYS, '''        tmp_sum = expl_obj.sum()''', '''        expl_obj.value["value"] = expl_obj.value["value"] * 1
        tmp_sum = expl_obj.sum()''')], ["frame store", "expl_obj.value"])

# ------------------------------------------------------------------------------------------------ lists
mut("listapi: insert no longer overridden", ["R-LISTAPI"],
    [(LL, "    def insert(self, index: int, value: ModelingObject):", "    def insert_checked(self, index: int, value: ModelingObject):"),
     (LL, "        super().insert(index, value_to_set)", "        list.insert(self, index, value_to_set)")], ["list.insert"])
mut("listpair: remove detaches its argument (revert of fix F13)", ["R-LISTPAIR"],
    [(LL, '''        removed_value = super().pop(self.index(value))
        removed_value.set_modeling_obj_container(None, None)''', '''        super().remove(value)
        value.set_modeling_obj_container(None, None)''')], ["remove", "argument"])
mut("listpair: slice deletion treated as one element (revert of fix F13)", ["R-LISTPAIR"],
    [(LL, '''        removed_values = self[index] if isinstance(index, slice) else [self[index]]
        for value in removed_values:
            value.set_modeling_obj_container(None, None)''', '''        value = self[index]
        value.set_modeling_obj_container(None, None)''')], ["__delitem__", "slice"])
mut("attach: replace primitive refuses only after it has mutated (revert of fix F20, first half)", ["R-ATTACH"],
    [("abstract_modeling_classes/object_linked_to_modeling_obj.py",
      '''        new_value_container = getattr(new_value, "modeling_obj_container", None)
        if new_value_container is not None and new_value_container != mod_obj_container:
            # Refuse before anything is modified
            raise PermissionError(
                f"{new_value} is already linked to {new_value_container.id} and is trying to be linked to "
                f"{mod_obj_container.id}.")
''', "")], ["refuses after it has mutated"])
mut("txn: rollback restores pairs that were never applied (revert of fix F20, second half)", ["R-TXN"],
    [(MU, "            if new_value.modeling_obj_container is not None and previous_value.modeling_obj_container is None:",
      "            if new_value.modeling_obj_container is not None:")], ["never applied"])
twin("txn: rollback guard written the other way round", ["R-TXN"],
     [(MU, "            if new_value.modeling_obj_container is not None and previous_value.modeling_obj_container is None:",
       "            if previous_value.modeling_obj_container is None and new_value.modeling_obj_container is not None:")])
twin("member: back links filtered by system membership (candidate repair of F25)", ["R-MEMBER"],
     [("core/usage/usage_journey.py", """    def usage_patterns(self):
        return self.modeling_obj_containers
""", """    def usage_patterns(self):
        return [usage_pattern for usage_pattern in self.modeling_obj_containers if usage_pattern.systems]
"""), ("core/hardware/network.py", """    def usage_patterns(self):
        return self.modeling_obj_containers
""", """    def usage_patterns(self):
        return [usage_pattern for usage_pattern in self.modeling_obj_containers if usage_pattern.systems]
""")])
mut("member: a country's patterns aggregated by a rule from the raw back links", ["R-MEMBER"],
    [("core/usage/usage_pattern.py", """    def update_energy_footprint(self):
""", """    def update_energy_footprint(self):
        nb_of_patterns_in_my_country = len([up for up in self.country.usage_patterns])
""")], ["Country.usage_patterns"])
mut("spread: daily volume divided by len(hours) (revert of fix F26)", ["R-SPREAD"],
    [("builders/time_builders.py", "    volume_per_hour = daily_volume / len(set(hours))", "    volume_per_hour = daily_volume / len(hours)")],
    ["divides by len(hours)"])
twin("spread: hours deduplicated before the division", ["R-SPREAD", "R-NARROW", "R-THREAD"],
    [("builders/time_builders.py", "    volume_per_hour = daily_volume / len(set(hours))",
      "    hours = sorted(set(hours))\n    volume_per_hour = daily_volume / len(hours)")])
twin("twin: the restore loop of rollback in a module-level helper", ["R-TXN", "R-ZIP", "R-MIRROR", "R-MUTDEF", "R-RULE-TXN"],
     [(MU, """class ModelingUpdate:
""", """def put_back_replaced_values(replaced_pairs):
    # Most recent replacement first
    for previous_value, new_value in reversed(replaced_pairs):
        if new_value.modeling_obj_container is not None and previous_value.modeling_obj_container is None:
            new_value.replace_in_mod_obj_container_without_recomputation(previous_value)


class ModelingUpdate:
"""), (MU, """        for previous_value, new_value in reversed(replaced_pairs):
            if new_value.modeling_obj_container is not None and previous_value.modeling_obj_container is None:
                new_value.replace_in_mod_obj_container_without_recomputation(previous_value)

    def make_simulation_specific_operations(self):""", """        put_back_replaced_values(replaced_pairs)

    def make_simulation_specific_operations(self):""")])
mut("mutdef: ids already put back kept in a default argument", ["R-MUTDEF"],
     [(MU, """class ModelingUpdate:
""", """def put_back_replaced_values(replaced_pairs, restored_ids=[]):
    for previous_value, new_value in reversed(replaced_pairs):
        if new_value.id in restored_ids:
            continue
        restored_ids.append(new_value.id)
        if new_value.modeling_obj_container is not None and previous_value.modeling_obj_container is None:
            new_value.replace_in_mod_obj_container_without_recomputation(previous_value)


class ModelingUpdate:
"""), (MU, """        for previous_value, new_value in reversed(replaced_pairs):
            if new_value.modeling_obj_container is not None and previous_value.modeling_obj_container is None:
                new_value.replace_in_mod_obj_container_without_recomputation(previous_value)

    def make_simulation_specific_operations(self):""", """        put_back_replaced_values(replaced_pairs)

    def make_simulation_specific_operations(self):""")], ["default of restored_ids"])
mut("cumul: negative storage check against exact zero (revert of fix F27)", ["R-CUMUL"],
    [("core/hardware/storage.py", "            if cumulative_need.min() < -1e-9 * cumulative_need.abs().max():",
      "            if cumulative_need.min().magnitude < 0:")], ["negativity check against exact zero"])
mut("hournoise: shift floored straight from the converted delay (revert of fix F29)", ["R-HOURNOISE"],
    [(EO, "        shift_duration_in_hours = math.floor(round(shift_duration.to(u.hour).magnitude, 9))",
      "        shift_duration_in_hours = math.floor(shift_duration.to(u.hour).magnitude)")], ["return_shifted_hourly_quantities"])
mut("hournoise: full hours of a request by ceil of the conversion (revert of fix F28)", ["R-HOURNOISE"],
    [(JOB, "                math.ceil(round(copy(self.request_duration.value).to(u.hour).magnitude, 9)) * u.dimensionless,",
      "                math.ceil(copy(self.request_duration.value).to(u.hour).magnitude) * u.dimensionless,")], ["duration_in_full_hours"])
mut("hournoise: remainder of an event duration compared with 0 (revert of fix F30)", ["R-HOURNOISE"],
    [(CNO, "    nb_of_full_hours_in_event_duration = math.floor(round(event_duration_in_nb_of_hours, 9))",
      "    nb_of_full_hours_in_event_duration = math.floor(event_duration_in_nb_of_hours)"),
     (CNO, "    if nonfull_duration_rest > 1e-9:", "    if nonfull_duration_rest > 0:")], ["compute_nb_avg_hourly_occurrences"])
mut("noop: hourly == raises on another length (revert of fix F23)", ["R-NOOP"],
    [(EO, """            if len(self.value) != len(other.value):
                return False
""", """            if len(self.value) != len(other.value):
                raise ValueError("Can only compare ExplainableHourlyUsages with values of same length.")
""")], ["__eq__ raises"])
mut("mag: fixed instance count handed to np.full with its unit (revert of fix F22)", ["R-MAG"],
    [("core/hardware/server_base.py", """                            np.full(len(self.raw_nb_of_instances),
                                    self.fixed_nb_of_instances.to(u.dimensionless).magnitude),""",
      """                            np.full(len(self.raw_nb_of_instances), self.fixed_nb_of_instances.value),""")],
    ["on_premise_update_nb_of_instances"])
mut("listsib: extend iterates its argument while appending (revert of fix F19)", ["R-LISTSIB"],
    [(LL, "        for value in list(values):\n            self.append(value)", "        for value in values:\n            self.append(value)")],
    ["extend", "snapshot"])
twin("listsib: extend snapshot spelled as a tuple", ["R-LISTSIB"],
     [(LL, "        for value in list(values):\n            self.append(value)", "        for value in tuple(values):\n            self.append(value)")])
mut("listsib: *= n doubles the content at every step (revert of fix F18)", ["R-LISTSIB"],
    [(LL, '''        initial_values = list(self)
        if n <= 0:
            self.clear()
        for _ in range(n - 1):
            self.extend(initial_values)''', '''        for _ in range(n - 1):
            self.extend(self.copy())''')], ["__imul__", "doubles"])
mut("listsib: *= 0 leaves the content", ["R-LISTSIB"],
    [(LL, '''        if n <= 0:
            self.clear()
        for _ in range(n - 1):''', '''        for _ in range(n - 1):''')], ["__imul__", "n <= 0"])
twin("listsib: snapshot taken with a comprehension, guard spelled n < 1", ["R-LISTSIB"],
     [(LL, '''        initial_values = list(self)
        if n <= 0:
            self.clear()''', '''        initial_values = [value for value in self]
        if n < 1:
            self.clear()''')])
mut("listpair: append stores the raw object", ["R-LISTPAIR"],
    [(LL, '''        value_to_set = ContextualModelingObjectAttribute(value)
        super().append(value_to_set)''', '''        value_to_set = ContextualModelingObjectAttribute(value)
        super().append(value)''')], ["append", "attach"])
mut("listpair: pop forgets to detach", ["R-LISTPAIR"],
    [(LL, '''        value = super().pop(index)
        value.set_modeling_obj_container(None, None)

        return value''', '''        value = super().pop(index)

        return value''')], ["pop", "detach"])
mut("listsib: insert replayed as append on the real list", ["R-LISTSIB"],
    [(LL, "        super().insert(index, value_to_set)", "        super().append(value_to_set)")], ["insert"])
mut("listsib: pop replayed at another index", ["R-LISTSIB"],
    [(LL, "            _ = copied_list.pop(index)", "            _ = copied_list.pop()")], ["pop"])
twin("lists: remove written as pop(index(x))", ["R-LISTSIB", "R-LISTPAIR"], [(LL, "removed_value", "taken_out"), ]) if False else None

# ------------------------------------------------------------------------------------------------ tables
mut("agg: a CDN category added to the energy dict only", ["R-AGG"],
    [(SYS, '''            "Devices": {usage_pattern.id: usage_pattern.energy_footprint
                        for usage_pattern in self.usage_patterns},
        }

        return energy_footprints''', '''            "Devices": {usage_pattern.id: usage_pattern.energy_footprint
                        for usage_pattern in self.usage_patterns},
            "CDN": {network.id: network.energy_footprint for network in self.networks},
        }

        return energy_footprints''')], ["KEYS", "energy_footprints"])
mut("agg: servers view reads the fabrication footprint in the energy dict", ["R-AGG"],
    [(SYS, '''            "Servers": {server.id: server.energy_footprint for server in self.servers},''',
      '''            "Servers": {server.id: server.instances_fabrication_footprint for server in self.servers},''')],
    ["SIB", "Servers"])
mut("agg: storage totals summed over the jobs' servers without dedup", ["R-AGG"],
    [(SYS, '''            "Storage": sum([storage.energy_footprint for storage in self.storages], start=EmptyExplainableObject()''',
      '''            "Storage": sum([server.storage.energy_footprint for server in self.servers], start=EmptyExplainableObject()''')],
    ["Storage"])
mut("json: writer stops emitting the unit of a quantity", ["R-JSON-KEYS"],
    [(EO, '''            "label": self.label, "value": float(self.value.magnitude), "unit": str(self.value.units)}''',
      '''            "label": self.label, "value": float(self.value.magnitude), "units": str(self.value.units)}''')],
    ["ExplainableQuantity.to_json"])
mut("json: reader requires a value key again (revert of fix F9)", ["R-JSON-KEYS"],
    [(J2S, '''SourceObject(input_dict.get("value"), source, input_dict["label"])''',
      '''SourceObject(input_dict["value"], source, input_dict["label"])''')], ["ExplainableObject.to_json", "value"])
mut("json: hourly writer renames start_date", ["R-JSON-KEYS"],
    [(EO, '''            "start_date": self.value.index[0].strftime("%Y-%m-%d %H:%M:%S")''',
      '''            "start": self.value.index[0].strftime("%Y-%m-%d %H:%M:%S")''')], ["ExplainableHourlyQuantities.to_json"])
mut("json: a class gains a list-valued bookkeeping attribute", ["R-JSON-KINDS"],
    [(NW, '''        self.energy_footprint = EmptyExplainableObject()
        self.bandwidth''', '''        self.energy_footprint = EmptyExplainableObject()
        self.history = [0]
        self.bandwidth''')], ["Network.history"])
mut("json: short_name dropped from the writer's explicit list", ["R-JSON-KINDS"],
    [(MO, '''            if key in ["name", "id", "short_name", "impact_url"]:''', '''            if key in ["name", "id", "impact_url"]:''')],
    ["Country.short_name"])
mut("json: major version bumped without an upgrade handler", ["R-JSON-UPG"],
    [("version.py", "10.", "11.")], ["handler for 10"])
mut("json: a concrete model class is left out of the public list", ["R-JSON-CLS"],
    [(ORD, "SERVER_CLASSES = [Server, GPUServer]", "SERVER_CLASSES = [Server]")], ["GPUServer"], undecided_ok=True)
mut("val: sign check dropped from the validator", ["R-VAL-FORMS"],
    [(MO, '''                if input_value.magnitude < 0 and name not in self.attributes_that_can_have_negative_values():
                    raise ValueError(
                        f"Value {input_value} for attribute {name} should be positive but is negative")''', "                pass")],
    ["sign"])
mut("val: a second union-annotated parameter", ["R-VAL-FORMS"],
    [(NW, "    def __init__(self, name: str, bandwidth_energy_intensity: ExplainableQuantity):",
      "    def __init__(self, name: str, bandwidth_energy_intensity: ExplainableQuantity | EmptyExplainableObject):")],
    ["Network.bandwidth_energy_intensity", "union"])
mut("val: update path no longer validates type and unit", ["R-VAL-SIB"],
    [(MU, '''                mod_obj_container.check_input_value_type_positivity_and_unit(
                    old_value.attr_name_in_mod_obj_container, new_value, mod_obj_container.default_values())''',
      "                pass")], ["update", "check_input_value_type_positivity_and_unit"])
mut("val: construction no longer checks allowed values", ["R-VAL-SIB"],
    [(MO, '''                self.check_belonging_to_authorized_values(
                    name, input_value, self.list_values(), self.conditional_list_values(),
                    self.attributes_with_depending_values())''', "                pass")], ["construction"])
mut("val: a quantity parameter loses its default", ["R-VAL-DEF"],
    [(NW, '''            "bandwidth_energy_intensity": SourceValue(0.1 * u.kWh / u.GB)''', "")], ["bandwidth_energy_intensity"])

# ------------------------------------------------------------------------------------------------ R-DEG
mut("deg: storage energy multiplied by PUE twice", ["R-DEG"],
    [(ST, '''        storage_energy = (active_storage_energy + idle_storage_energy)''',
      '''        storage_energy = (active_storage_energy + idle_storage_energy) * self.power_usage_effectiveness''')],
    ["power_usage_effectiveness", "Storage.instances_energy"])
mut("deg: device fabrication divided by lifespan only", ["R-DEG"],
    [(UP, "                    / (device.lifespan * device.fraction_of_usage_time)", "                    / device.lifespan")],
    ["fraction_of_usage_time", "devices_fabrication_footprint"])
mut("deg: network footprint uses a constant intensity instead of the country's", ["R-DEG"],
    [(NW, "            energy_footprint += up_network_consumption * up.country.average_carbon_intensity",
      "            energy_footprint += up_network_consumption * SourceValue(100 * u.g / u.kWh)")],
    ["Country.average_carbon_intensity", "Network.energy_footprint"])
mut("deg: idle energy divided by PUE", ["R-DEG"],
    [(SB, "                self.idle_power * self.power_usage_effectiveness * ExplainableQuantity(1 * u.hour, \"one hour\"))",
      "                self.idle_power / self.power_usage_effectiveness * ExplainableQuantity(1 * u.hour, \"one hour\"))")],
    ["power_usage_effectiveness", "instances_energy"])
mut("deg: storage footprint uses the server's PUE in the fabrication footprint", ["R-DEG"],
    [(IH, "                / self.lifespan)", "                / self.lifespan * self.power_usage_effectiveness)")],
    ["independent", "instances_fabrication_footprint"], undecided_ok=True)
mut("deg: network consumption adds a fixed overhead per hour", ["R-DEG"],
    [(NW, "                        self.bandwidth_energy_intensity * hourly_data_transferred_per_up[up]).to(u.kWh)",
      "                        self.bandwidth_energy_intensity * hourly_data_transferred_per_up[up] + SourceValue(1 * u.Wh)).to(u.kWh)")],
    ["Network.energy_footprint"])
mut("deg: bitrate ignores the frame rate", ["R-DEG"],
    [(VS, "        self.dynamic_bitrate = (pixel_count * self.service.bits_per_pixel * self.refresh_rate",
      "        self.dynamic_bitrate = (pixel_count * self.service.bits_per_pixel * SourceValue(30 / u.s)")],
    ["refresh_rate", "dynamic_bitrate"])
mut("deg: device energy squared in the number of journeys", ["R-DEG"],
    [(UP, "        devices_energy = (self.nb_usage_journeys_in_parallel * total_devices_energy_spent_over_one_full_hour).to(u.kWh)",
      "        devices_energy = (self.nb_usage_journeys_in_parallel * self.nb_usage_journeys_in_parallel * total_devices_energy_spent_over_one_full_hour).to(u.kWh)")],
    ["hourly_usage_journey_starts", "devices_energy"])
twin("deg: product re-associated and the one-hour constant hoisted", ["R-DEG", "R-PROV"],
     [(SB, '''        energy_spent_by_one_idle_instance_over_one_hour = (
                self.idle_power * self.power_usage_effectiveness * ExplainableQuantity(1 * u.hour, "one hour"))''',
       '''        one_hour = ExplainableQuantity(1 * u.hour, "one hour")
        energy_spent_by_one_idle_instance_over_one_hour = (
                one_hour * (self.power_usage_effectiveness * self.idle_power))''')])

# ------------------------------------------------------------------------------------------------ R-MAG
mut("mag: fixed instance count read in the user's unit", ["R-MAG"],
    [(ST, "self.fixed_nb_of_instances.to(u.dimensionless).magnitude", "self.fixed_nb_of_instances.magnitude")],
    ["Storage.update_nb_of_instances"])
mut("mag: shift duration read in the user's unit", ["R-MAG"],
    [(EO, "math.floor(round(shift_duration.to(u.hour).magnitude, 9))", "math.floor(round(shift_duration.magnitude, 9))")],
    ["return_shifted_hourly_quantities"])
mut("mag: event duration read in the user's unit", ["R-MAG"],
    [(CNO, "copy(event_duration.value).to(u.hour).magnitude", "copy(event_duration.value).magnitude")],
    ["compute_nb_avg_hourly_occurrences"])
mut("mag: storage duration read in the user's unit", ["R-MAG"],
    [(ST, "math.ceil(round(self.data_storage_duration.to(u.hour).magnitude, 9))", "math.ceil(round(self.data_storage_duration.magnitude, 9))")],
    ["automatic_storage_dumps_after_storage_duration"])
mut("mag: raw instance count no longer made dimensionless before ceil", ["R-MAG"],
    [(ST, "        raw_nb_of_instances = (self.full_cumulative_storage_need / self.storage_capacity).to(u.dimensionless)",
      "        raw_nb_of_instances = (self.full_cumulative_storage_need / self.storage_capacity)")],
    ["Storage.update_nb_of_instances", "call-site"])
mut("mag: timespan read without conversion in a builder", ["R-MAG"],
    [(TB, "    nb_of_hours = int(timedelta(hours=timespan.to(u.hour).magnitude) / timedelta(hours=1))\n    linear_growth",
      "    nb_of_hours = int(timedelta(hours=timespan.magnitude) / timedelta(hours=1))\n    linear_growth")],
    ["linear_growth_hourly_values"])
mut("mag: on-premise maximum read before conversion", ["R-MAG"],
    [(SB, "            max_nb_of_instances = self.raw_nb_of_instances.max().ceil().to(u.dimensionless)",
      "            max_nb_of_instances = self.hour_by_hour_ram_need.max().ceil()")],
    ["on_premise_update_nb_of_instances"])
twin("mag: conversion hoisted into a local first", ["R-MAG"],
     [(ST, "            storage_duration_in_hours = math.ceil(round(self.data_storage_duration.to(u.hour).magnitude, 9))",
       "            duration_h = self.data_storage_duration.to(u.hour)\n            storage_duration_in_hours = math.ceil(round(duration_h.magnitude, 9))")])
twin("mag: sign test written the other way round", ["R-MAG"],
     [(ST, "            if job.data_stored.magnitude >= 0:", "            if 0 <= job.data_stored.magnitude:")])

# ------------------------------------------------------------------------------------------------ narrow rules
mut("perup: across-patterns data stored sums the transferred dict", ["R-PERUP"],
    [(JOB, '''            "hourly_data_stored_per_usage_pattern", "data stored")''',
      '''            "hourly_data_transferred_per_usage_pattern", "data stored")''')], ["update_hourly_data_stored_across_usage_patterns"])
mut("perup: occurrences written only for the first usage pattern", ["R-PERUP"],
    [(JOB, '''        for up in self.usage_patterns:
            self.hourly_occurrences_per_usage_pattern[up] = self.compute_hourly_occurrences_for_usage_pattern(up)''',
      '''        for up in self.usage_patterns[:1]:
            self.hourly_occurrences_per_usage_pattern[up] = self.compute_hourly_occurrences_for_usage_pattern(up)''')],
    ["update_hourly_occurrences_per_usage_pattern"])
mut("perup: network reads every pattern of the job", ["R-PERUP"],
    [(NW, "            job_ups_in_network_ups = [up for up in job.usage_patterns if up in self.usage_patterns]",
      "            job_ups_in_network_ups = [up for up in job.usage_patterns]")], ["Network.update_energy_footprint"])
mut("bound: autoscaling sized on the mean", ["R-BOUND"],
    [(SB, "        hour_by_hour_nb_of_instances = self.raw_nb_of_instances.ceil()\n\n        self.nb_of_instances = hour_by_hour_nb_of_instances.generate",
      "        hour_by_hour_nb_of_instances = self.raw_nb_of_instances.mean()\n\n        self.nb_of_instances = hour_by_hour_nb_of_instances.generate")],
    ["autoscaling_update_nb_of_instances"], undecided_ok=True)
mut("bound: on-premise sized on the mean instead of the peak", ["R-BOUND"],
    [(SB, "            max_nb_of_instances = self.raw_nb_of_instances.max().ceil().to(u.dimensionless)",
      "            max_nb_of_instances = self.raw_nb_of_instances.mean().ceil().to(u.dimensionless)")],
    ["on_premise_update_nb_of_instances"], undecided_ok=True)
mut("bound: fixed instance count used without the raising comparison", ["R-BOUND"],
    [(ST, '''                if max_nb_of_instances > self.fixed_nb_of_instances:
                    raise ValueError(
                        f"The number of {self.name} instances computed from its resources need is superior to the "
                        f"number of instances specified by the user/server "
                        f"({max_nb_of_instances} > {self.fixed_nb_of_instances})")
                else:''', '''                if True:''')], ["Storage.update_nb_of_instances", "fixed"])
mut("bound: active instances no longer capped by provisioned ones", ["R-BOUND"],
    [(ST, '''        nb_of_active_instances = tmp_nb_of_active_instances.np_compared_with(self.nb_of_instances.abs(), "min")''',
      '''        nb_of_active_instances = tmp_nb_of_active_instances.np_compared_with(self.nb_of_instances.abs(), "max")''')],
    ["update_nb_of_active_instances"])
mut("local: job occurrences computed from the local-time series", ["R-LOCAL"],
    [(JOB, "                    job_occurrences += usage_pattern.utc_hourly_usage_journey_starts.return_shifted_hourly_quantities(",
      "                    job_occurrences += usage_pattern.hourly_usage_journey_starts.return_shifted_hourly_quantities(")],
    ["reads local time"])
mut("local: duplicated hours dropped instead of summed", ["R-LOCAL"],
    [(EO, "            fused_duplicates = duplicates_df.groupby(duplicates_df.index).sum()",
      "            fused_duplicates = duplicates_df.groupby(duplicates_df.index).first()")], ["convert_to_utc"])
mut("placeholder: GenAIJob stops computing request_duration", ["R-PLACEHOLDER"],
    [(GA, '''        return (["output_token_weights", "data_stored", "data_transferred", "request_duration", "ram_needed",''',
      '''        return (["output_token_weights", "data_stored", "data_transferred", "ram_needed",''')],
    ["GenAIJob.request_duration"])
mut("sibjob: service jobs stop listing their server", ["R-SIB-JOB"],
    [("builders/services/service_job_base_class.py", "        return [self.server] + super().modeling_objects_whose_attributes_depend_directly_on_me",
      "        return super().modeling_objects_whose_attributes_depend_directly_on_me")], ["dependants lack server"])
mut("serv: occupied RAM ignores installed services", ["R-SERV"],
    [(SB, '''        self.occupied_ram_per_instance = (self.base_ram_consumption + sum(
            [service.base_ram_consumption for service in self.installed_services])).set_label(''',
      '''        self.occupied_ram_per_instance = self.base_ram_consumption.copy().set_label(''')], ["occupied_ram_per_instance"])
mut("serv: server jobs ignore the jobs of installed services", ["R-SERV"],
    [(SB, "            + sum([service.jobs for service in self.installed_services], [])\n", "")], ["jobs misses"])
mut("sel: network picks its first usage pattern's country", ["R-SEL"],
    [(NW, "            energy_footprint += up_network_consumption * up.country.average_carbon_intensity",
      "            energy_footprint += up_network_consumption * self.usage_patterns[0].country.average_carbon_intensity")],
    ["Network.update_energy_footprint"])
mut("sel: storage picks a server without the singleton guard", ["R-SEL"],
    [(ST, '''            if len(self.modeling_obj_containers) > 1:
                raise PermissionError(
                    f"Storage object can only be associated with one server object but {self.name} is associated "
                    f"with {[mod_obj.name for mod_obj in self.modeling_obj_containers]}")
''', "")], ["Storage.server"])
mut("idflow: usage patterns sorted by id before summing", ["R-IDFLOW"],
    [(JOB, "        for usage_pattern in self.usage_patterns:\n            hourly_calc_attr_summed_across_ups +=",
      "        for usage_pattern in sorted(self.usage_patterns, key=lambda up: up.id):\n            hourly_calc_attr_summed_across_ups +=")],
    ["sum_calculated_attribute_across_usage_patterns", "up.id"])
mut("thread: list builder ignores the requested unit", ["R-THREAD"],
    [(TB, '''    df = pd.DataFrame(input_list, index=period_index, columns=['value'], dtype=f"pint[{str(pint_unit)}]")''',
      '''    df = pd.DataFrame(input_list, index=period_index, columns=['value'], dtype="pint[dimensionless]")''')],
    ["create_hourly_usage_df_from_list", "pint_unit"])
mut("thread: linear growth forgets the start date", ["R-THREAD"],
    [(TB, "    df = create_hourly_usage_df_from_list(linear_growth, start_date, pint_unit)",
      "    df = create_hourly_usage_df_from_list(linear_growth, pint_unit=pint_unit)")], ["linear_growth_hourly_values", "start_date"])
mut("thread: frequency builder time line is daily", ["R-THREAD"],
    [(TB, "    period_index = pd.date_range(start=start_date, end=end_date, freq='h')\n    # Important",
      "    period_index = pd.date_range(start=start_date, end=end_date, freq='D')\n    # Important")],
    ["create_hourly_usage_from_frequency", "date_range"])
mut("thread: daily-volume builder passes its hours as active days", ["R-THREAD"],
    [(TB, "        timespan, volume_per_hour, frequency='daily', active_days=None, hours=hours,",
      "        timespan, volume_per_hour, frequency='daily', active_days=None, hours=None,")], ["hours"])

# ------------------------------------------------------------------------------------------------ refactoring twins
twin("twin: duplicated hours merged with groupby(level=0)", ["R-LOCAL"],
     [(EO, "            fused_duplicates = duplicates_df.groupby(duplicates_df.index).sum()",
       "            fused_duplicates = duplicates_df.groupby(level=0).sum()")])
twin("twin: per-pattern occurrences built with a dict comprehension", ["R-PERUP", "R-PROV", "R-WRITE", "R-ORDER"],
     [(JOB, '''        self.hourly_occurrences_per_usage_pattern = ExplainableObjectDict()
        for up in self.usage_patterns:
            self.hourly_occurrences_per_usage_pattern[up] = self.compute_hourly_occurrences_for_usage_pattern(up)''',
       '''        self.hourly_occurrences_per_usage_pattern = ExplainableObjectDict(
            {up: self.compute_hourly_occurrences_for_usage_pattern(up) for up in self.usage_patterns})''')])
twin("twin: self_delete guard written with len()", ["R-GUARD"],
     [(MO, "        if self.modeling_obj_containers:\n            raise PermissionError(",
       "        if len(self.modeling_obj_containers) > 0:\n            raise PermissionError(")])
twin("twin: a log line after the final reset of a simulation", ["R-TXN"],
     [(MU, "        if simulation_date is not None:\n            self.reset_values()\n",
       "        if simulation_date is not None:\n            self.reset_values()\n        logger.debug(\"update done\")\n")])
twin("twin: loop variables of reset_values renamed", ["R-MIRROR"],
     [(MU, '''            for new_value, previous_value in zip(
                    self.all_new_obj_linked_to_mod_obj, self.all_previous_obj_linked_to_mod_obj):
                new_value.replace_in_mod_obj_container_without_recomputation(previous_value)
            self.updated_values_set = False''', '''            for simulated, baseline in zip(
                    self.all_new_obj_linked_to_mod_obj, self.all_previous_obj_linked_to_mod_obj):
                simulated.replace_in_mod_obj_container_without_recomputation(baseline)
            self.updated_values_set = False''')])
twin("twin: category key renamed in update_total_footprint", ["R-AGG"],
     [(SYS, '''                sum(self.fabrication_footprints[key].values()) + sum(self.energy_footprints[key].values())
                for key in self.fabrication_footprints.keys()''',
       '''                sum(self.fabrication_footprints[category].values()) + sum(self.energy_footprints[category].values())
                for category in self.fabrication_footprints.keys()''')])
twin("twin: network filters the shared patterns the other way round", ["R-PERUP", "R-PROV"],
     [(NW, "            job_ups_in_network_ups = [up for up in job.usage_patterns if up in self.usage_patterns]",
       "            job_ups_in_network_ups = [up for up in self.usage_patterns if up in job.usage_patterns]")])
twin("twin: UTC conversion called positionally", ["R-LOCAL", "R-PROV"],
     [(UP, "        utc_hourly_usage_journey_starts = self.hourly_usage_journey_starts.convert_to_utc(\n            local_timezone=self.country.timezone)",
       "        utc_hourly_usage_journey_starts = self.hourly_usage_journey_starts.convert_to_utc(self.country.timezone)")])
twin("twin: twin links written in the other order", ["R-ZIP"],
     [(MU, "            value_to_recompute.simulation_twin = recomputed_value\n            recomputed_value.baseline_twin = value_to_recompute",
       "            recomputed_value.baseline_twin = value_to_recompute\n            value_to_recompute.simulation_twin = recomputed_value")])

# ------------------------------------------------------------------------------------------------ structural clauses
mut("chain: value appended without waiting for its ancestors", ["R-CHAIN"],
    [(EB, '''                        if all([has_been_added_to_chain_dict[ancestor.id]
                                for ancestor in ancestors_that_belong_to_self_descendants]):''',
      '''                        if True:''')], ["attr_updates_chain append guard"])
mut("chain: duplicate updates keep the first occurrence", ["R-CHAIN"],
    [(EB, "        if attr_to_update.id not in attr_to_update_ids[index + 1:]:", "        if attr_to_update.id not in attr_to_update_ids[:index]:")],
    ["optimize_attr_updates_chain"])
mut("chain: duplicate objects keep the first occurrence", ["R-CHAIN"],
    [(MO, "        if mod_obj not in mod_objs_computation_chain[index + 1:]:", "        if mod_obj not in mod_objs_computation_chain[:index]:")],
    ["optimize_mod_objs_computation_chain"])
mut("chain: system no longer appended to the recomputation chain", ["R-CHAIN"],
    [(MO, '''    for mod_obj in ordered_chain:
        if mod_obj.systems:
            ordered_chain.append(mod_obj.systems[0])
            logger.debug("Added system to optimized chain")
            break
''', "")], ["system"])
mut("simdate: filter keeps the hours before the date", ["R-SIMDATE"],
    [(MU, "                hourly_quantities.value[filtering_index >= self.simulation_date],",
      "                hourly_quantities.value[filtering_index <= self.simulation_date],")], ["filter direction"])
mut("simdate: naive dates accepted", ["R-SIMDATE"],
    [(MU, '''            if simulation_date.tzinfo is None:
                raise ValueError(
                    f"Simulation date {simulation_date} should be timezone aware. "
                    f"Please use a timezone aware datetime object by setting its tzinfo attribute.")
''', "")], ["naive date"])
mut("simdate: series selected when they end before the date", ["R-SIMDATE"],
    [(MU, "            if self.simulation_date <= max_date:", "            if self.simulation_date >= max_date:")],
    ["selection"])
mut("delay: delay increased before the step's jobs are placed", ["R-DELAY"],
    [(JOB, '''        for uj_step in usage_pattern.usage_journey.uj_steps:
            for uj_step_job in uj_step.jobs:
                if uj_step_job == self:
                    job_occurrences += usage_pattern.utc_hourly_usage_journey_starts.return_shifted_hourly_quantities(
                        delay_between_uj_start_and_job_evt)

            delay_between_uj_start_and_job_evt += uj_step.user_time_spent''',
      '''        for uj_step in usage_pattern.usage_journey.uj_steps:
            delay_between_uj_start_and_job_evt += uj_step.user_time_spent
            for uj_step_job in uj_step.jobs:
                if uj_step_job == self:
                    job_occurrences += usage_pattern.utc_hourly_usage_journey_starts.return_shifted_hourly_quantities(
                        delay_between_uj_start_and_job_evt)''')], ["delay before placement"])
mut("delay: a job repeated in a step is counted once", ["R-DELAY"],
    [(JOB, '''                    job_occurrences += usage_pattern.utc_hourly_usage_journey_starts.return_shifted_hourly_quantities(
                        delay_between_uj_start_and_job_evt)
''', '''                    job_occurrences += usage_pattern.utc_hourly_usage_journey_starts.return_shifted_hourly_quantities(
                        delay_between_uj_start_and_job_evt)
                    break
''')], ["multiplicity"])
mut("cumul: initial need added after the running sum", ["R-CUMUL"],
    [(ST, '''            storage_delta_df.iat[0, 0] += self.base_storage_need.value
            full_cumulative_storage_need = storage_delta_df.cumsum()''',
      '''            full_cumulative_storage_need = storage_delta_df.cumsum()
            full_cumulative_storage_need.iat[0, 0] += self.base_storage_need.value''')], ["base need after cumsum"],
    undecided_ok=True)
mut("cumul: freed storage subtracted", ["R-CUMUL"],
    [(ST, "        storage_delta = (self.storage_needed + self.storage_freed", "        storage_delta = (self.storage_needed - self.storage_freed")],
    ["delta terms"])
mut("jsonid: the system keeps the id drawn at re-initialisation", ["R-JSON-ID"],
    [(J2S, "        system.id = system_id\n", "")], ["system id"])
mut("valauth: conditional list no longer enforced", ["R-VAL-AUTH"],
    [(MO, '''            if (conditional_value in conditional_list_values[name]["conditional_list_values"].keys()
                    and input_value not in
                    conditional_list_values[name]["conditional_list_values"][conditional_value]):
                raise ValueError(''', '''            if (conditional_value in conditional_list_values[name]["conditional_list_values"].keys()
                    and input_value not in
                    conditional_list_values[name]["conditional_list_values"][conditional_value]):
                logger.warning(''')], ["conditional_list_values"])

# ------------------------------------------------------------------------------------------------ rules added after the seeded campaign
mut("accum: storage needed overwritten instead of accumulated", ["R-ACCUM"],
    [(ST, "                storage_needed += job.hourly_data_stored_across_usage_patterns",
      "                storage_needed = job.hourly_data_stored_across_usage_patterns")], ["Storage.storage_needed", "overwrites"])
mut("leak: replication factor read through a leaked loop variable", ["R-LEAK"],
    [(ST, "        storage_freed *= self.data_replication_factor", "        storage_freed *= job.server.storage.data_replication_factor")],
    ["Storage.storage_freed", "job"])
mut("paren: quotient's divisor printed without parentheses", ["R-PAREN"],
    [(EB, '''            if tuple_element[1] == "/":
                if type(tuple_element[2]) == tuple:
                    right_parenthesis = True''', '''            if tuple_element[1] == "/":
                if type(tuple_element[2]) == tuple and tuple_element[2][1] != "*":
                    right_parenthesis = True''')], ["'/'", "right"])
mut("units: gpu defined in terms of cpu_core", ["R-UNITS"],
    [("constants/custom_units.txt", "gpu = [gpu] = gpu", "gpu = cpu_core = gpu")], ["gpu"])
mut("derived: hourly unit cached", ["R-DERIVED"],
    [(EO, "        return self.value.dtypes.iloc[0].units", "        return getattr(self, \"_unit\", None) or self.value.dtypes.iloc[0].units")],
    ["ExplainableHourlyQuantities.unit"])
mut("summary: to() skips the conversion on a fast path", ["R-SUMMARY"],
    [(EO, '''    def to(self, unit_to_convert_to: Unit):
        self.value["value"] = self.value["value"].pint.to(unit_to_convert_to)''', '''    def to(self, unit_to_convert_to: Unit):
        if self.unit.dimensionless and unit_to_convert_to == u.dimensionless:
            return self
        self.value["value"] = self.value["value"].pint.to(unit_to_convert_to)''')], ["ExplainableHourlyQuantities.to", "conditional"])
mut("replace-sym: empty exemption only for the new value", ["R-REPLACE-SYM"],
    [(OL, "        if not isinstance(new_value, EmptyExplainableObject) and not isinstance(self, EmptyExplainableObject):",
      "        if not isinstance(new_value, EmptyExplainableObject):")], ["type-compatibility guard"])
mut("edge: registration only with attached ancestors", ["R-EDGE"],
    [(EB, "            for direct_ancestor_with_id in self.direct_ancestors_with_id:\n                direct_ancestor_with_id.add_child_to_direct_children_with_id(direct_child=self)",
      "            for direct_ancestor_with_id in self.direct_ancestors_with_id:\n                if direct_ancestor_with_id.modeling_obj_container is not None:\n                    direct_ancestor_with_id.add_child_to_direct_children_with_id(direct_child=self)")],
    ["add_child_to_direct_children_with_id", "some ancestors only"])
mut("tzreplace: simulation date relabelled as UTC", ["R-TZREPLACE"],
    [(MU, "            self.system.simulation = self\n", "            self.simulation_date = simulation_date.replace(tzinfo=pytz.utc)\n            self.system.simulation = self\n")],
    ["simulation_date"])
mut("valuestore: usage pattern rewrites the converted series", ["R-VALUESTORE"],
    [(UP, "        self.utc_hourly_usage_journey_starts = utc_hourly_usage_journey_starts.set_label(f\"{self.name} UTC\")",
      "        utc_hourly_usage_journey_starts.value = utc_hourly_usage_journey_starts.value.asfreq(\"h\", method=\"ffill\")\n        self.utc_hourly_usage_journey_starts = utc_hourly_usage_journey_starts.set_label(f\"{self.name} UTC\")")],
    ["update_utc_hourly_usage_journey_starts"])
mut("jsonload: empty lists left unconverted", ["R-JSON-LOAD"],
    [(J2S, "                    mod_obj.__setattr__(attr_key, ListLinkedToModelingObj(output_val), check_input_validity=False)",
      "                    if output_val:\n                        mod_obj.__setattr__(attr_key, ListLinkedToModelingObj(output_val), check_input_validity=False)")],
    ["ListLinkedToModelingObj", "output_val"])
mut("jsonsib: hourly writer takes the rounding depth first (revert of fix F14)", ["R-JSON-SIB"],
    [(EO, "    def to_json(self, with_calculated_attributes_data=False, rounding_depth=3):",
      "    def to_json(self, rounding_depth=3, with_calculated_attributes_data=False):")], ["rounding_depth"])
mut("jsonsib: scalar writer rounds", ["R-JSON-SIB"],
    [(EO, '''"value": float(self.value.magnitude), "unit"''', '''"value": round(float(self.value.magnitude), 6), "unit"''')],
    ["ExplainableQuantity.to_json rounds"])
mut("zip: twin links skipped for dict values", ["R-ZIP"],
    [(MU, "            value_to_recompute.simulation_twin = recomputed_value\n",
      "            if not isinstance(value_to_recompute, ExplainableObject):\n                continue\n            value_to_recompute.simulation_twin = recomputed_value\n")],
    ["twins", "conditional"])
mut("local: end-offset shortcut in convert_to_utc", ["R-LOCAL"],
    [(EO, '''    def convert_to_utc(self, local_timezone):
''', '''    def convert_to_utc(self, local_timezone):
        if len(self.value) < 2:
            return ExplainableHourlyQuantities(
                self.value.set_axis(self.value.index.tz_localize("UTC")),
                left_parent=self, right_parent=local_timezone, operator="converted to UTC from")
''')], ["return path bypasses the conversion"])
mut("prov: parent recorded on one arm only of an if/else", ["R-PROV"],
    [(SB, '''                    left_parent=self.raw_nb_of_instances,
                    right_parent=self.fixed_nb_of_instances,
                    operator="depending on not being empty"''', '''                    left_parent=self.raw_nb_of_instances,
                    operator="max"''')], ["fixed_nb_of_instances"])

# ------------------------------------------------------------------------------------------------ more refactoring twins
twin("twin: accumulation written as x = x + term", ["R-ACCUM", "R-PROV", "R-DEG"],
     [(ST, "                storage_needed += job.hourly_data_stored_across_usage_patterns",
       "                storage_needed = storage_needed + job.hourly_data_stored_across_usage_patterns")])
twin("twin: loop variable name reused by a later loop", ["R-LEAK", "R-ACCUM"],
     [(NW, "        for up in self.usage_patterns:\n            up_network_consumption", "        for up in list(self.usage_patterns):\n            up_network_consumption")])
twin("twin: no-op test written the other way round", ["R-NOOP", "R-LIVE"],
     [(MU, "            if old_value == new_value:", "            if new_value == old_value:")])
twin("twin: rollback renamed", ["R-TXN", "R-ZIP"],
     [(MU, "            self.rollback()", "            self.restore_replaced_values()"),
      (MU, "    def rollback(self):", "    def restore_replaced_values(self):")])
twin("twin: all() given a generator in attr_updates_chain", ["R-CHAIN"],
     [(EB, '''                        if all([has_been_added_to_chain_dict[ancestor.id]
                                for ancestor in ancestors_that_belong_to_self_descendants]):''',
       '''                        if all(has_been_added_to_chain_dict[ancestor.id]
                               for ancestor in ancestors_that_belong_to_self_descendants):''')])
twin("twin: parenthesis table uses tuples", ["R-PAREN"],
     [(EB, '''tuple_element[2][1] in ["+", "-"]:''', '''tuple_element[2][1] in ("+", "-"):''')])
twin("twin: on-premise branches inverted", ["R-PROV", "R-BOUND", "R-LABEL", "R-WRITE"],
     [(SB, '''            if not isinstance(self.fixed_nb_of_instances, EmptyExplainableObject):
                if max_nb_of_instances > self.fixed_nb_of_instances:
                    raise ValueError(
                        f"The number of {self.name} instances computed from its resources need is superior to the "
                        f"number of instances specified by the user "
                        f"({max_nb_of_instances.value} > {self.fixed_nb_of_instances})")
                else:
                    fixed_nb_of_instances_df = pd.DataFrame(
                        {"value": pint_pandas.PintArray(
                            np.full(len(self.raw_nb_of_instances),
                                    self.fixed_nb_of_instances.to(u.dimensionless).magnitude),
                            dtype=u.dimensionless
                        )},
                        index=self.raw_nb_of_instances.value.index
                    )
                    nb_of_instances = ExplainableHourlyQuantities(
                        fixed_nb_of_instances_df,
                        "Nb of instances",
                        left_parent=self.raw_nb_of_instances,
                        right_parent=self.fixed_nb_of_instances
                    )
            else:
                nb_of_instances_df = pd.DataFrame(
                    {"value": pint_pandas.PintArray(
                        max_nb_of_instances.magnitude * np.ones(len(self.raw_nb_of_instances)), dtype=u.dimensionless)},
                    index=self.raw_nb_of_instances.value.index
                )

                nb_of_instances = ExplainableHourlyQuantities(
                    nb_of_instances_df,
                    f"Hourly number of {self.name} instances",
                    left_parent=self.raw_nb_of_instances,
                    right_parent=self.fixed_nb_of_instances,
                    operator="depending on not being empty"
                )
''', '''            if isinstance(self.fixed_nb_of_instances, EmptyExplainableObject):
                nb_of_instances_df = pd.DataFrame(
                    {"value": pint_pandas.PintArray(
                        max_nb_of_instances.magnitude * np.ones(len(self.raw_nb_of_instances)), dtype=u.dimensionless)},
                    index=self.raw_nb_of_instances.value.index
                )

                nb_of_instances = ExplainableHourlyQuantities(
                    nb_of_instances_df,
                    f"Hourly number of {self.name} instances",
                    left_parent=self.raw_nb_of_instances,
                    right_parent=self.fixed_nb_of_instances,
                    operator="depending on not being empty"
                )
            else:
                if max_nb_of_instances > self.fixed_nb_of_instances:
                    raise ValueError(
                        f"The number of {self.name} instances computed from its resources need is superior to the "
                        f"number of instances specified by the user "
                        f"({max_nb_of_instances.value} > {self.fixed_nb_of_instances})")
                fixed_nb_of_instances_df = pd.DataFrame(
                    {"value": pint_pandas.PintArray(
                        np.full(len(self.raw_nb_of_instances), self.fixed_nb_of_instances.value),
                        dtype=u.dimensionless
                    )},
                    index=self.raw_nb_of_instances.value.index
                )
                nb_of_instances = ExplainableHourlyQuantities(
                    fixed_nb_of_instances_df,
                    "Nb of instances",
                    left_parent=self.raw_nb_of_instances,
                    right_parent=self.fixed_nb_of_instances
                )
''')])
twin("twin: delay loop variables renamed", ["R-DELAY", "R-ACCUM", "R-PROV"],
     [(JOB, '''        for uj_step in usage_pattern.usage_journey.uj_steps:
            for uj_step_job in uj_step.jobs:
                if uj_step_job == self:
                    job_occurrences += usage_pattern.utc_hourly_usage_journey_starts.return_shifted_hourly_quantities(
                        delay_between_uj_start_and_job_evt)

            delay_between_uj_start_and_job_evt += uj_step.user_time_spent''',
       '''        for step in usage_pattern.usage_journey.uj_steps:
            for step_job in step.jobs:
                if step_job == self:
                    job_occurrences += usage_pattern.utc_hourly_usage_journey_starts.return_shifted_hourly_quantities(
                        delay_between_uj_start_and_job_evt)

            delay_between_uj_start_and_job_evt += step.user_time_spent''')])
twin("twin: allowed-values test without .keys()", ["R-VAL-AUTH"],
     [(MO, "        if name in list_values.keys():", "        if name in list_values:")])
twin("twin: validation hoisted into a local before assigning", ["R-RULE-TXN", "R-PROV", "R-LABEL"],
     [(SB, '''        if available_ram_per_instance.value < 0 * u.B:''', '''        ram_is_overbooked = available_ram_per_instance.value < 0 * u.B
        if ram_is_overbooked:''')])
twin("twin: JSON loader local renamed", ["R-JSON-LOAD"],
     [(J2S, '''                    output_val = []
                    for elt in attr_value:
                        if type(elt) == str and elt in flat_obj_dict.keys():
                            output_val.append(flat_obj_dict[elt])
                    mod_obj.__setattr__(attr_key, ListLinkedToModelingObj(output_val), check_input_validity=False)''',
       '''                    linked_objects = [flat_obj_dict[elt] for elt in attr_value
                                      if type(elt) == str and elt in flat_obj_dict.keys()]
                    mod_obj.__setattr__(attr_key, ListLinkedToModelingObj(linked_objects), check_input_validity=False)''')])
twin("twin: np_compared_with raises first, then one return", ["R-SUMMARY", "R-OPPAR", "R-RAW2", "R-MAG"],
     [(EO, '''        if comparator not in ["max", "min"]:
            raise ValueError(f"Comparator {comparator} not implemented in np_compared_with method")
''', '''        if comparator not in ("max", "min"):
            raise ValueError(f"Comparator {comparator} not implemented in np_compared_with method")
''')])
twin("twin: sum of device powers written as an accumulation loop", ["R-PROV", "R-DEG", "R-ACCUM", "R-LEAK"],
     [(UP, '''        total_devices_energy_spent_over_one_full_hour = sum(
            [device.power for device in self.devices]) * ExplainableQuantity(1 * u.hour, "one full hour")''',
       '''        total_devices_power = EmptyExplainableObject()
        for device in self.devices:
            total_devices_power += device.power
        total_devices_energy_spent_over_one_full_hour = total_devices_power * ExplainableQuantity(
            1 * u.hour, "one full hour")''')])

# ------------------------------------------------------------------------------------------------ round-2 rules
mut("trunc: hour count truncated again", ["R-TRUNC"],
    [(TB, "    nb_of_hours = int(timedelta(hours=timespan.to(u.hour).magnitude) / timedelta(hours=1))\n    linear_growth",
      "    nb_of_hours = int(timespan.to(u.hour).magnitude)\n    linear_growth")],
    ["linear_growth_hourly_values"])
twin("trunc: rounding spelled with round()", ["R-TRUNC"],
     [(TB, "    nb_of_hours = int(timedelta(hours=timespan.to(u.hour).magnitude) / timedelta(hours=1))\n    linear_growth",
       "    nb_of_hours = int(round(timespan.to(u.hour).magnitude, 6))\n    linear_growth")])
mut("zerocut: empty shortcut on a sign test", ["R-ZEROCUT"],
    [("core/usage/compute_nb_occurrences_in_parallel.py",
      "    if isinstance(hourly_occurrences_starts, EmptyExplainableObject) or event_duration.magnitude == 0:",
      "    if isinstance(hourly_occurrences_starts, EmptyExplainableObject) or event_duration.magnitude <= 0:")],
    ["compute_nb_avg_hourly_occurrences"])
twin("zerocut: zero test written as not-truthy magnitude", ["R-ZEROCUT"],
     [("core/usage/compute_nb_occurrences_in_parallel.py",
       "    if isinstance(hourly_occurrences_starts, EmptyExplainableObject) or event_duration.magnitude == 0:",
       "    if isinstance(hourly_occurrences_starts, EmptyExplainableObject) or not event_duration.magnitude:")])
mut("lastwins: entry overwritten per journey", ["R-LASTWINS"],
    [(JOB, "        for up in self.usage_patterns:\n            self.hourly_occurrences_per_usage_pattern[up] = self.compute_hourly_occurrences_for_usage_pattern(up)",
      "        for uj in self.usage_journeys:\n            self.last_usage_journey_name = uj.name\n        for up in self.usage_patterns:\n            self.hourly_occurrences_per_usage_pattern[up] = self.compute_hourly_occurrences_for_usage_pattern(up)")],
    ["update_hourly_occurrences_per_usage_pattern"])
twin("lastwins: per-element store keyed by the element", ["R-LASTWINS"],
     [(JOB, "        for up in self.usage_patterns:\n            self.hourly_occurrences_per_usage_pattern[up] = self.compute_hourly_occurrences_for_usage_pattern(up)",
       "        for up in self.usage_patterns:\n            occurrences = self.compute_hourly_occurrences_for_usage_pattern(up)\n            self.hourly_occurrences_per_usage_pattern[up] = occurrences")])

VARIANTS = [v for v in V if v is not None]
