"""Self-test corpus: mutants (must fire, naming the broken instance) and benign twins (must stay silent).

Each variant is a list of text edits applied to a scratch copy of /repo/efootprint under $TMPDIR (removed
afterwards). A variant whose anchor text is no longer in the working tree is SKIPPED (the tree moved on), never
a failure. This tests the checker, never a property: a failure is an ANALYSIS-ERROR in the thorough tier.
"""
import concurrent.futures as cf
import os
import shutil
import sys
import tempfile
import time
import traceback

from .frontend import REPO, PKG, AnalysisError


def _load_variants():
    from .variants import VARIANTS
    return list(VARIANTS) + seeded_variants() + benign_variants() + mech_variants()


def mech_variants():
    """whole-package mechanical behaviour-preserving refactorings (efa/mech.py), regenerated from the current tree on
    every run: every rule must stay silent and decided on each of them"""
    from .rules import load_all, RULES
    from .mech import MODES
    load_all()
    return [dict(name=f"mechanical refactoring of the whole package: {m}", rules=sorted(RULES), edits=[], mech=m, names=[],
                 expect="silent") for m in MODES]


def benign_variants():
    """behaviour-preserving refactorings written by independent agents (/verif/benign/<id>/patch.diff, each with an
    equivalence script that prints the same digest with and without it): every rule must stay silent and decided"""
    import json
    from .rules import load_all, RULES
    load_all()
    base = os.path.join(os.path.dirname(os.path.dirname(os.path.abspath(__file__))), "benign")
    out = []
    if not os.path.isdir(base):
        return out
    for d in sorted(os.listdir(base)):
        pp = os.path.join(base, d, "patch.diff")
        if os.path.exists(pp):
            mp = os.path.join(base, d, "meta.json")
            meta = json.load(open(mp)) if os.path.exists(mp) else {}
            if meta.get("open"):
                continue      # a known false alarm, listed as such in DESIGN §13.5b / §14 (not part of the silent corpus)
            # a redesign the rules cannot follow may leave a check undecided (exit 2, the check needs maintenance) —
            # recorded per patch with its reason; it must still never raise an alarm
            out.append(dict(name=f"benign {d}", rules=sorted(RULES), edits=[], patch=pp, names=[], expect="silent",
                            undecided_ok=bool(meta.get("tolerated_undecided"))))
    return out


def seeded_variants():
    """the independently written breaking changes kept under /verif/seeded/, as fire-variants for the rules that caught
    them when they were filed (meta.json: expected_rules)"""
    import json
    base = os.path.join(os.path.dirname(os.path.dirname(os.path.abspath(__file__))), "seeded")
    out = []
    if not os.path.isdir(base):
        return out
    for d in sorted(os.listdir(base)):
        mp = os.path.join(base, d, "meta.json")
        if not os.path.exists(mp):
            continue
        meta = json.load(open(mp))
        rules = meta.get("expected_rules") or []
        if meta.get("confirmed") and rules:
            out.append(dict(name=f"seeded {d} ({meta.get('breaks_property')})", rules=rules, edits=[],
                            patch=os.path.join(base, d, "patch.diff"), names=[], expect="fires"))
    return out


def apply_edits(root, edits):
    for rel, old, new in edits:
        p = os.path.join(root, PKG, rel)
        src = open(p, encoding="utf-8").read()
        if src.count(old) != 1:
            return f"anchor text not found exactly once in {rel}: {old[:50]!r} ({src.count(old)} times)"
        with open(p, "w", encoding="utf-8") as f:
            f.write(src.replace(old, new))
    return None


def run_variant(v, repo=None):
    """returns (name, status, detail) with status in ok / FAIL / skip"""
    from .engine import Engine
    from .rules import load_all, run_rule
    load_all()
    repo = repo or REPO
    tmp = tempfile.mkdtemp(prefix="efa-self-")
    try:
        shutil.copytree(os.path.join(repo, PKG), os.path.join(tmp, PKG),
                        ignore=shutil.ignore_patterns("__pycache__", "*.pyc"))
        err = apply_edits(tmp, v["edits"])
        if err:
            return v["name"], "skip", err
        if v.get("mech"):
            from .mech import transform_package
            transform_package(v["mech"], os.path.join(repo, PKG), os.path.join(tmp, PKG))
        if v.get("patch"):
            import subprocess
            p = subprocess.run(["git", "apply", "-p1", v["patch"]], cwd=tmp, capture_output=True, text=True)
            if p.returncode != 0:
                return v["name"], "skip", "patch no longer applies: " + p.stderr.strip()[:120]
        base = Engine(repo)
        mut = Engine(tmp)
        new, und = [], []
        for r in v["rules"]:
            b = {f.ident() for f in run_rule(base, r).findings}
            try:
                res = run_rule(mut, r)
            except AnalysisError as e:
                und.append(f"{r}: {e}")
                continue
            new += [f for f in res.findings if f.ident() not in b]
            und += [f"{r}: {u}" for u in res.undecided]
        if v["expect"] == "fires":
            hits = [f for f in new if all(s in (f.key + " " + f.message) for s in v.get("names", []))]
            if hits:
                return v["name"], "ok", f"{hits[0].rule}: {hits[0].key[:110]}"
            if v.get("undecided_ok") and und:
                return v["name"], "ok", f"fails closed: {und[0][:110]}"
            return v["name"], "FAIL", f"expected a report naming {v.get('names')}; new findings: " \
                                      f"{[f.key[:80] for f in new][:4]} undecided: {und[:2]}"
        else:
            # a report counts as an alarm when some property's check would print it (an area-tagged lint reports under the
            # properties that list that area; a report of an area no property lists is not printed by any check)
            from .properties import PROPS as _PROPS

            def claimed(f):
                for spec in _PROPS.values():
                    for r in spec["rules"]:
                        base_r, _, clause = r.partition(":")
                        if base_r == f.rule and (not clause or clause in f.extra.get("clauses", [clause])):
                            return True
                return False
            new = [f for f in new if claimed(f)]
            if new or (und and not v.get("undecided_ok")):
                return v["name"], "FAIL", f"benign twin raised {[f.key[:90] for f in new][:3]} {und[:2]}"
            if und:
                return v["name"], "ok", f"silent; undecided (tolerated, see meta.json): {und[0][:80]}"
            return v["name"], "ok", "silent"
    except Exception:
        return v["name"], "FAIL", traceback.format_exc()[-400:]
    finally:
        shutil.rmtree(tmp, ignore_errors=True)


def run_all(rules=None, jobs=None, verbose=True):
    vs = _load_variants()
    if rules is not None:
        vs = [v for v in vs if set(v["rules"]) & set(rules)]
        # silent variants are checked against every rule: restrict them to the rules asked for
        vs = [dict(v, rules=sorted(set(v["rules"]) & set(rules))) if v["expect"] == "silent" and len(v["rules"]) > 10 else v
              for v in vs]
    jobs = jobs or min(16, os.cpu_count() or 4)
    out = []
    t0 = time.time()
    with cf.ProcessPoolExecutor(max_workers=jobs) as ex:
        for name, status, detail in ex.map(run_variant, vs):
            out.append((name, status, detail))
            if verbose:
                print(f"  [{status:4}] {name}: {detail}")
    if verbose:
        n = {s: sum(1 for _, st, _ in out if st == s) for s in ("ok", "FAIL", "skip")}
        print(f"self-test: {len(out)} variants, {n['ok']} ok, {n['FAIL']} failed, {n['skip']} skipped "
              f"[{time.time() - t0:.1f}s]")
    return out


def main():
    only = [a for a in sys.argv[1:] if a.startswith("R-")]
    out = run_all(only or None)
    return 2 if any(st == "FAIL" for _, st, _ in out) else 0
