"""Property -> rules map (DESIGN §0, §6). Only rules that exist in the registry are run; a property whose rule list is
empty is not claimed."""

PROPS = {
    "C01": dict(
        rules=["R-CALC", "R-SLOT", "R-ORDER", "R-REACH", "R-PROV", "R-ENTRY", "R-LISTAPI", "R-ID", "R-SNAP", "R-CHAIN", "R-SUMMARY", "R-WRITE", "R-NOOP", "R-OBJID", "R-CACHE:model", "R-EDGE", "R-LATEBIND:update"],
        decided="necessary conditions for incremental = from-scratch: rule/slot tables, def-before-use in the schedule, class-level reachability for link edits, value-level provenance completeness (per branch) for numeric edits, ordering guards of the three chain builders, single entry point for edits, no inherited list mutator, no-op skip only on equality, injective ids (values and objects), operator summaries valid on every path, snapshot order of the before/after totals, link bookkeeping written only by its owners, the system looked up on every object of a recomputation chain, memo tables keyed completely; a value method summarised as returning a new object never returns self; no closure created in a loop of the update machinery outlives its iteration while reading a rebound variable",
        not_decided="the numeric equality edited-vs-rebuilt; instance-level reachability through pre-change links"),
    "C02": dict(
        rules=["R-AGG", "R-DEG", "R-ACCUM", "R-LEAK", "R-CHAIN:system", "R-ONCE", "R-PROV:footprint", "R-LATEBIND:model", "R-GROUPBY:model"],
        decided="structure of the aggregation: the four category dicts agree on keys, collections, attributes and deduplication; every footprint-bearing class is covered; footprint = energy x intensity (degree rows); accumulator discipline and no loop variable read after its loop in model code; the system (whose stored total is the only aggregate that is not recomputed on the fly) is appended to every recomputation chain, looked up on every object of the chain; the total does not pair the entries of the two footprint dictionaries by position unless both are built over the same collection; footprints have complete provenance (a live edit reaches the stored total); no itertools.groupby on an unsorted collection",
        not_decided="finiteness and sign of the values"),
    "C03": dict(
        rules=["R-SHIFT", "R-FILL", "R-PERUP", "R-DEG", "R-DELAY", "R-ACCUM", "R-ZEROCUT", "R-ONCE", "R-REST", "R-LATEBIND:model", "R-GROUPBY:model"],
        decided="index shift (freq=) not positional shift, zero-fill on series addition/multiplication, per-pattern writer/reader collection agreement, linearity of load quantities in the traffic series, delay increased after a step's jobs are placed and steps enumerated from the uj_steps list itself (order and multiplicity), accumulators only added to (never overwritten, compounded or scaled inside the loop), empty-value shortcuts taken only on emptiness / == 0 tests (never on an ordering test that would swallow negative data_stored), a collection that is summed over holds each object once (navigation properties that concatenate their containers' lists are de-duplicated); a duration truncated downwards has its remainder used or is the prescribed whole-hour shift; the steps of a journey are enumerated from the list itself, also through helpers (never from a dict keyed by step)",
        not_decided="the conservation identities themselves (floor/ceil hour arithmetic, totals)"),
    "C04": dict(
        rules=["R-RAW2", "R-BOUND", "R-CUMUL", "R-WRITE:infra", "R-PROV:infra", "R-LATEBIND:model", "R-GROUPBY:model"],
        decided="two-series raw array operations are aligned and unit-fixed (no positional arithmetic between two series); order-domain bounds nb >= raw, active <= nb; a fixed instance count is compared with the peak need before use; cumulative storage = running sum with the base need added first, checked before it is installed; stored data expires after its storage duration rounded up (never down) to whole hours; the writers' and the deleters' tests on data_stored are each other's negation; the sizing branches are found from the rule's dispatch; infrastructure rules keep no state outside their attribute and have complete provenance",
        not_decided="every >= inequality numerically; float cancellation in the storage negativity check"),
    "C05": dict(
        rules=["R-TXN:sim", "R-MIRROR", "R-ZIP", "R-WRITE", "R-REPLACE-SYM", "R-EDGE", "R-ATTACH", "R-CACHE:update", "R-LATEBIND:update"],
        decided="exceptional exits of a simulation restore what was replaced; set/reset are mirror images; baseline/simulated lists are built in lockstep; the replace primitive has a symmetric precondition and detaches before it attaches; child registration is unconditional and every path of the attach primitive that attaches registers / that had a container deregisters; rules write only their own attribute; memo tables in the update machinery are keyed completely; a wrapper constructed with its container is stored by the function that built it; no late-binding closure in the update machinery",
        not_decided="identity of every object after arbitrary toggle sequences"),
    "C06": dict(
        rules=["R-ZIP", "R-TXN:date", "R-SIMDATE", "R-LOCAL", "R-TZREPLACE", "R-CACHE:update", "R-LATEBIND:update"],
        decided="twin pairing lists are built in lockstep and every pair is linked; rejections (naive date, outside period) precede any mutation; the filter keeps hours >= the date; naive local-time indexes are localised with the pattern's zone; no aware date is re-labelled with .replace(tzinfo=); no normal exit skips the modelled-period test; a cached localised index is keyed by its time zone too; the filter compares timestamps with the date (a cut by position is reported); twin links have a single writer; the methods that decide what is cut at the date look at the new values of the changes too (F21, known finding)",
        not_decided="equality with the really-updated model; 'no hour before the date'"),
    "C07": dict(
        rules=["R-OPREC", "R-OPPAR", "R-INPLACE", "R-LABEL", "R-SUMMARY", "R-PAREN", "R-VALUESTORE", "R-WRITE", "R-PARENT-USED", "R-CACHE:explainable", "R-CHAIN", "R-PUREVIEW", "R-EDGE", "R-TRUTHY", "R-LATEBIND:explainable"],
        decided="recorded operator and operand order = computed ones; parents recorded on every return path; each recorded parent is used by the value; no unrecorded in-place numeric change and no store into .value from outside; every assigned result labelled; explain() parenthesises wherever precedence requires it; read-only views do not round model values in place; ancestor lists have a single writer; where explain() decides 'has a parent' by truth value no routinely-parent class defines __len__ / __bool__; no late-binding closure in the explainable layer",
        not_decided="numeric re-evaluation of each node"),
    "C08": dict(
        rules=["R-PROV", "R-EDGE", "R-ID", "R-ACYC", "R-SUMMARY", "R-CHAIN", "R-ATTACH", "R-LATEBIND:explainable", "R-TXN:recompute"],
        decided="completeness (every dependency is a transitive recorded ancestor, per branch), both-ends bookkeeping has single writers, paired unconditional loops and detach-before-attach, dedup ids injective, attribute graph acyclic at class level, ordering guards of attr_updates_chain and of the de-duplications (keep last, at the last position), every path of the attach primitive registers / deregisters; a failed recomputation restores what was already replaced (partial progress visible to the rollback); the ancestor hook answers [self] while attached",
        not_decided="correctness of attr_updates_chain on arbitrary graphs"),
    "C09": dict(
        rules=["R-COMM", "R-FILL", "R-PURE", "R-RAW2", "R-OPREC", "R-UNITS", "R-DERIVED", "R-CACHE:explainable", "R-SHIFT", "R-MAG:operators", "R-LATEBIND:explainable"],
        decided="operand-kind dispatch symmetry of + and *, empty neutral/absorbing, zero-fill, operators do not mutate operands, no positional arithmetic between two series, custom resource units keep their own dimension, derived accessors (unit) are never cached, the shift operation moves the labels of the frame it is given (no regenerated contiguous index); no bare magnitude taken in an unfixed unit inside the operators",
        not_decided="the algebraic laws over values (pint/pandas, trusted)"),
    "C10": dict(
        rules=["R-MAG", "R-SUMMARY", "R-DERIVED", "R-LATEBIND:explainable"],
        decided="every bare-number extraction from a unit-carrying value happens in a statically fixed unit or a scale-invariant context; ceil/round call sites have a fixed unit; to() converts on every path; unit accessors are not cached",
        not_decided="nothing beyond pint's own correctness"),
    "C11": dict(
        rules=["R-LOCAL", "R-TZREPLACE", "R-VALUESTORE", "R-CACHE:explainable", "R-LATEBIND:tz"],
        decided="only the UTC converter (and the simulation filter, which localises explicitly) reads the local-time series; the converter localises with the pattern's zone, keeps skipped hours, sums duplicated ones, and every definition of the returned frame on every return path comes from the per-timestamp conversion; nothing rewrites the converted series afterwards; between convert_to_utc and the stored attribute no method re-grids or cuts the frame; the time zones of the predefined countries are not produced by late-binding closures",
        not_decided="totals, DST merging, offsets (pandas/pytz runtime semantics)"),
    "C12": dict(
        rules=["R-DEG", "R-LEAK", "R-PROV", "R-MAG", "R-WRITE", "R-LATEBIND:model", "R-GROUPBY:model"],
        decided="homogeneity degree of each footprint formula in each documented driver, independence rows, no loop variable read after its loop, and provenance completeness so that a live edit of a driver reaches the footprints; no bare magnitude in an unfixed unit, rules keep no hidden state (a driver edit after any history scales the footprint), no groupby on an unsorted collection",
        not_decided="floating-point exactness of k*x"),
    "C13": dict(
        rules=["R-JSON-KEYS", "R-JSON-KINDS", "R-JSON-UPG", "R-JSON-CLS", "R-JSON-ID", "R-JSON-LOAD", "R-JSON-SIB", "R-CACHE:json", "R-SETORDER", "R-JSON-DISPATCH", "R-LATEBIND:json", "R-JSON-WALK", "R-JSON-DEFAULTS"],
        decided="writer/reader key and kind agreement, to_json dispatch covers every attribute kind, sibling to_json signatures agree, scalar values written without rounding and hourly ones with 3 decimals, loader converts unconditionally and after the version upgrade, ids preserved, upgrade-handler table total, class table covers reachable classes, registries / memo tables used while loading are keyed by everything the stored object depends on; link lists handed to the loader never take their order from a set; model code does not dispatch on a value class the loader does not rebuild; the writer's reachability walk follows links only (no recursive descent into bookkeeping containers); a wrapper built with its container is stored by its maker; a constructor with a non-None default source is given the source explicitly on every path of the loader",
        not_decided="numeric equality after reload, byte-equality of re-export, liveness of the loaded system"),
    "C14": dict(
        rules=["R-TXN:val", "R-VAL-FORMS", "R-VAL-SIB", "R-VAL-DEF", "R-VAL-AUTH", "R-ENTRY", "R-RULE-TXN", "R-LATEBIND:update", "R-TXN:recompute", "R-ATTACH"],
        decided="validation precedes mutation or is rolled back; validator dispatch covers every annotation form; the three allowed-values refusals raise; both entry paths call both validators; defaults table covers quantity parameters; __setattr__ overrides delegate on every path; inside the loop over the changes every path validates or has a None value; the controlling / dependent value of a conditional list is read from the object being validated; the replace primitive refuses a value that belongs to another object before its first mutation, and the rollback only undoes replacements that happened (F20, fixed); a rule that refuses does so before it assigns; no late-binding closure among the checks registered per change",
        not_decided="nothing stated as undecided; the checks are structural"),
    "C15": dict(
        rules=["R-TXN:recompute", "R-EDGE", "R-RULE-TXN", "R-CACHE:update", "R-WRITE", "R-LATEBIND:update"],
        decided="an exception leaving the recompute loop restores every value already replaced (the handler sees partial progress); no path of a rule assigns its attribute and raises afterwards; re-attachment registers children unconditionally; rules keep no state outside their calculated attribute (nothing a rollback would miss); the rollback only undoes replacements that happened",
        not_decided="behaviour of arbitrary later histories"),
    "C16": dict(
        rules=["R-LISTAPI", "R-LISTPAIR", "R-LISTSIB", "R-LIVE", "R-REV", "R-EDGE", "R-GUARD", "R-NOOP", "R-OBJID", "R-ATTACH", "R-SETORDER", "R-LATEBIND:update"],
        decided="list-API exhaustiveness, attach/detach pairing per mutator, shadow-copy/real-op agreement, receiver typestate after a mutator, reverse look-ups derived not stored, single append-only writers of link bookkeeping, no-op skip only on equality (and list equality not overridden by a set / length comparison), unique object ids, delete guard and one-system check ordering and reachability from the edit path; `*= n` replays n-1 extensions of a snapshot and empties for n <= 0, extend iterates over a snapshot of its argument (F18, F19, fixed); link lists never ordered by a set; wrappers born attached are stored by their maker",
        not_decided="list-content equivalence with Python lists for every operation sequence"),
    "C17": dict(
        rules=["R-CALC", "R-PROV", "R-ORDER", "R-PLACEHOLDER", "R-SIB-JOB", "R-SERV", "R-DEG", "R-REACH", "R-PARENT-USED", "R-CACHE:model", "R-WRITE:builder", "R-LATEBIND:model"],
        decided="builder rule tables, provenance (per branch) and schedule; constant placeholders are calculated; each recorded parent of a looked-up value is used by the lookup; Job/ServiceJob agree; server accounts for services; a class that looks up its holders' holders is named by those holders' own dependents list (a freshly linked service reaches its server); the schedule is checked against whatever class list the chain optimiser ranks by; the two stated builder formulas have the stated shape; every builder rule assigns its attribute and nothing else; no late-binding closure in the builders",
        not_decided="numeric equality builder-model vs plain-model"),
    "C18": dict(
        rules=["R-ORDER", "R-WRITE", "R-ACYC", "R-INPLACE", "R-PUREVIEW", "R-VALUESTORE", "R-CHAIN", "R-LATEBIND:model"],
        decided="def-before-use in the canonical schedule (and its reordering guards), rules write only their own attribute, acyclicity, no value-changing in-place call on model state, no store into .value from outside, read-only views",
        not_decided="determinism of pint/pandas (trusted)"),
    "C19": dict(
        rules=["R-SEL", "R-IDFLOW", "R-LEAK", "R-ACCUM", "R-OBJID", "R-LASTWINS", "R-SETORDER", "R-LATEBIND:model", "R-GROUPBY:model"],
        decided="positional selection from hash-ordered collections only at proven-singleton sites; identity never flows into values; object ids unique per object; no loop variable read after its loop, no order-dependent accumulation (scaling inside a loop) and no last-element-wins overwrite inside loops over set-ordered collections; a positional selection from a collection whose order comes, through grouping or filtering, from a hash-ordered one is allowed only for what the group is keyed by; link lists never ordered by a set; no groupby on an unsorted collection",
        not_decided="last-ulp effects of summation order over set-ordered collections (listed, not alarmed)"),
    "C20": dict(
        rules=["R-THREAD", "R-CACHE:time", "R-TRUNC", "R-LATEBIND:time", "R-ORDEFAULT"],
        decided="every builder threads start_date, pint_unit and its value parameters into the frame it returns; every date_range starts at start_date and is hourly; what decides an hour is read from its timestamp, not its position; hour counts are not obtained by truncating a converted float duration (F17, fixed); memo tables / cached results are keyed completely and not mutated; no `value or default` on a numeric builder parameter",
        not_decided="calendar logic, lengths (beyond the truncation clause), leap years (pandas date_range semantics)"),
}
