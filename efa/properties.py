"""Property -> rules map (DESIGN §0, §6). Only rules that exist in the registry are run; a property whose rule list is
empty is not claimed."""

PROPS = {
    "C01": dict(
        rules=["R-CALC", "R-SLOT", "R-ORDER", "R-REACH", "R-PROV", "R-ENTRY", "R-LISTAPI", "R-ID", "R-SNAP", "R-CHAIN", "R-SUMMARY", "R-WRITE", "R-NOOP", "R-OBJID"],
        decided="necessary conditions for incremental = from-scratch: rule/slot tables, def-before-use in the "
                "schedule, class-level reachability for link edits, value-level provenance completeness for numeric "
                "edits, single entry point for edits, no inherited list mutator, injective dedup ids, snapshot order",
        not_decided="the numeric equality edited-vs-rebuilt; instance-level reachability through pre-change links"),
    "C02": dict(
        rules=["R-AGG", "R-DEG", "R-ACCUM", "R-LEAK"],
        decided="structure of the aggregation: the four category dicts agree on keys, collections, attributes and "
                "deduplication; every footprint-bearing class is covered; footprint = energy x intensity (degree rows)",
        not_decided="finiteness and sign of the values"),
    "C03": dict(
        rules=["R-SHIFT", "R-FILL", "R-PERUP", "R-DEG", "R-DELAY", "R-ACCUM"],
        decided="index shift (freq=) not positional shift, zero-fill on series addition/multiplication, per-pattern "
                "writer/reader collection agreement, linearity of load quantities in the traffic series",
        not_decided="the conservation identities themselves (floor/ceil hour arithmetic, totals)"),
    "C04": dict(
        rules=["R-RAW2", "R-BOUND", "R-CUMUL"],
        decided="two-series raw array operations are aligned and unit-fixed; order-domain bounds nb >= raw, "
                "active <= nb; the fixed instance count is compared against the need before it is used",
        not_decided="every >= inequality numerically; float cancellation in the storage negativity check"),
    "C05": dict(
        rules=["R-TXN:sim", "R-MIRROR", "R-ZIP", "R-WRITE", "R-REPLACE-SYM", "R-EDGE", "R-ATTACH"],
        decided="exceptional exits of a simulation restore what was replaced; set/reset are mirror images; "
                "baseline/simulated lists are built in lockstep; rules write only their own attribute",
        not_decided="identity of every object after arbitrary toggle sequences"),
    "C06": dict(
        rules=["R-ZIP", "R-TXN:date", "R-SIMDATE", "R-LOCAL", "R-TZREPLACE"],
        decided="twin pairing lists are built in lockstep; the naive-date and outside-period rejections precede "
                "any mutation (or are rolled back)",
        not_decided="equality with the really-updated model; 'no hour before the date'"),
    "C07": dict(
        rules=["R-OPREC", "R-OPPAR", "R-INPLACE", "R-LABEL", "R-SUMMARY", "R-PAREN", "R-VALUESTORE", "R-WRITE", "R-PARENT-USED"],
        decided="recorded operator and operand order = computed ones; parents recorded; no unrecorded in-place "
                "numeric change; every assigned result labelled",
        not_decided="numeric re-evaluation of each node"),
    "C08": dict(
        rules=["R-PROV", "R-EDGE", "R-ID", "R-ACYC", "R-SUMMARY", "R-CHAIN", "R-ATTACH"],
        decided="completeness (every dependency is a transitive recorded ancestor), both-ends bookkeeping has single "
                "writers and paired loops, dedup ids injective, attribute graph acyclic at class level",
        not_decided="correctness of attr_updates_chain on arbitrary graphs"),
    "C09": dict(
        rules=["R-COMM", "R-FILL", "R-PURE", "R-RAW2", "R-OPREC", "R-UNITS", "R-DERIVED"],
        decided="operand-kind dispatch symmetry of + and *, zero-fill, operators do not mutate operands, raw "
                "two-series operations aligned and unit-fixed",
        not_decided="the algebraic laws over values (pint/pandas, trusted)"),
    "C10": dict(
        rules=["R-MAG", "R-SUMMARY", "R-DERIVED"],
        decided="every bare-number extraction from a unit-carrying value happens in a statically fixed unit or a "
                "scale-invariant context",
        not_decided="nothing beyond pint's own correctness"),
    "C11": dict(
        rules=["R-LOCAL", "R-TZREPLACE", "R-VALUESTORE"],
        decided="only the UTC converter (and the simulation filter, which localises explicitly) reads the local-time "
                "series; every other rule reads the UTC attribute",
        not_decided="totals, DST merging, offsets (pandas/pytz runtime semantics)"),
    "C12": dict(
        rules=["R-DEG", "R-LEAK", "R-PROV"],
        decided="homogeneity degree of each footprint formula in each documented driver, and independence rows",
        not_decided="floating-point exactness of k*x"),
    "C13": dict(
        rules=["R-JSON-KEYS", "R-JSON-KINDS", "R-JSON-UPG", "R-JSON-CLS", "R-JSON-ID", "R-JSON-LOAD", "R-JSON-SIB"],
        decided="writer/reader key agreement, to_json dispatch covers every attribute kind, upgrade-handler table "
                "total, class table covers the reachable classes",
        not_decided="numeric equality after reload, byte-equality of re-export, liveness of the loaded system"),
    "C14": dict(
        rules=["R-TXN:val", "R-VAL-FORMS", "R-VAL-SIB", "R-VAL-DEF", "R-VAL-AUTH", "R-ENTRY"],
        decided="validation precedes mutation or is rolled back; validator dispatch covers every annotation form; "
                "both entry paths call both validators; defaults table covers quantity parameters; __setattr__ "
                "overrides delegate",
        not_decided="nothing stated as undecided; the checks are structural"),
    "C15": dict(
        rules=["R-TXN:recompute", "R-EDGE", "R-RULE-TXN"],
        decided="an exception leaving the recompute loop restores every value already replaced",
        not_decided="behaviour of arbitrary later histories"),
    "C16": dict(
        rules=["R-LISTAPI", "R-LISTPAIR", "R-LISTSIB", "R-LIVE", "R-REV", "R-EDGE", "R-GUARD", "R-NOOP", "R-OBJID", "R-ATTACH"],
        decided="list-API exhaustiveness, attach/detach pairing per mutator, shadow-copy/real-op agreement, receiver "
                "typestate after a mutator, reverse look-ups derived not stored, single writers of link bookkeeping, "
                "delete guard and system exclusivity ordering",
        not_decided="list-content equivalence with Python lists for every operation sequence"),
    "C17": dict(
        rules=["R-CALC", "R-PROV", "R-ORDER", "R-PLACEHOLDER", "R-SIB-JOB", "R-SERV", "R-DEG", "R-REACH", "R-PARENT-USED"],
        decided="builder rule tables, provenance and schedule; constant placeholders are calculated; Job/ServiceJob "
                "agree; server accounts for services; the two stated builder formulas have the stated shape",
        not_decided="numeric equality builder-model vs plain-model"),
    "C18": dict(
        rules=["R-ORDER", "R-WRITE", "R-ACYC", "R-INPLACE", "R-PUREVIEW", "R-VALUESTORE", "R-CHAIN"],
        decided="def-before-use in the canonical schedule, rules write only their own attribute, acyclicity, no "
                "value-changing in-place call on model state, read-only views",
        not_decided="determinism of pint/pandas (trusted)"),
    "C19": dict(
        rules=["R-SEL", "R-IDFLOW", "R-LEAK", "R-ACCUM", "R-OBJID"],
        decided="positional selection from hash-ordered collections only at proven-singleton sites; identity never "
                "flows into values",
        not_decided="last-ulp effects of summation order over set-ordered collections (listed, not alarmed)"),
    "C20": dict(
        rules=["R-THREAD"],
        decided="every builder threads start_date, pint_unit and its value source into the frame it returns; every "
                "date_range is hourly",
        not_decided="calendar logic, lengths, leap years (pandas date_range semantics)"),
}
