"""Front end: parse /repo/efootprint into a ProgramModel (DESIGN §3).

Nothing here imports efootprint; everything is read from the syntax trees of the current working tree.
"""
import ast
import hashlib
import os
from dataclasses import dataclass, field

REPO = os.environ.get("EFA_REPO", "/repo")
PKG = "efootprint"

# Modules outside the analysed scope, each with its reason (printed in evidence).
EXCLUSIONS = {
    "utils/dev_utils": "developer scripts (screenshots, page weights), not part of the model",
    "builders/hardware/boavizta_server_from_config.py":
        "unfinished class kept out of ALL_EFOOTPRINT_CLASSES upstream",
}

MODEL_ROOT = "ModelingObject"
E_CLASSES = ("ExplainableObject", "ExplainableQuantity", "ExplainableHourlyQuantities", "EmptyExplainableObject",
             "SourceObject", "SourceValue", "SourceHourlyValues")
E_KIND = {"ExplainableObject": "EOBJ", "SourceObject": "EOBJ", "ExplainableQuantity": "EQ", "SourceValue": "EQ",
          "ExplainableHourlyQuantities": "EHQ", "SourceHourlyValues": "EHQ", "EmptyExplainableObject": "EMPTY"}


class AnalysisError(Exception):
    """The analyser cannot decide (unknown construct, vanished anchor, count below floor). Exit code 2."""


@dataclass
class ClassInfo:
    name: str
    module: str
    path: str
    node: ast.ClassDef
    bases: list


@dataclass
class AttrInfo:
    name: str
    kind: str                 # 'input' | 'placeholder' | 'link' | 'plain'
    owner: str                # class whose __init__ makes the deciding assignment
    node: ast.AST
    link_kind: str = None     # 'one' | 'list'
    targets: frozenset = frozenset()   # declared target classes (links)
    valkinds: frozenset = frozenset()  # {'EQ','EHQ','EOBJ','EMPTY'} for inputs
    param: str = None         # constructor parameter it comes from


def norm(node):
    """Normalised statement text used in finding keys (never line numbers)."""
    if isinstance(node, str):
        return " ".join(node.split())
    return " ".join(ast.unparse(node).split())


def decorators(fn):
    out = set()
    for d in fn.decorator_list:
        if isinstance(d, ast.Name):
            out.add(d.id)
        elif isinstance(d, ast.Attribute):
            out.add(d.attr)
    return out


def is_property(fn):
    # (a cached_property is read like a property; that its cache is dropped when what it reads changes is R-CACHE's business)
    d = decorators(fn)
    return "property" in d or "cached_property" in d or "functools.cached_property" in d


def is_static(fn):
    return "staticmethod" in decorators(fn)


def is_classmethod(fn):
    return "classmethod" in decorators(fn)


def is_abstract(fn):
    return "abstractmethod" in decorators(fn)


def fold_single_use_temporaries(tree):
    """Canonical form: `t = <expr>` immediately followed by `return t` / `<target> = t` / `<target> op= t` is read as
    the one statement `return <expr>` / `<target> = <expr>` when every occurrence of `t` in the function is part of such
    a pair (so `t` is nothing but a name for the value on its way to the next statement). Splitting a statement in two
    (or merging the two) therefore cannot change what any rule sees. Returns the number of folds."""
    n_folds = 0
    for fn in [n for n in ast.walk(tree) if isinstance(n, (ast.FunctionDef, ast.AsyncFunctionDef))]:
        occurrences = {}
        for x in ast.walk(fn):
            if isinstance(x, ast.Name):
                occurrences[x.id] = occurrences.get(x.id, 0) + 1
        params = {a.arg for a in fn.args.args + fn.args.kwonlyargs + fn.args.posonlyargs}
        pairs = {}      # name -> [(block, assign stmt, consumer stmt)]

        def is_pair(a, b):
            if not (isinstance(a, ast.Assign) and len(a.targets) == 1 and isinstance(a.targets[0], ast.Name)):
                return None
            t = a.targets[0].id
            if t in params or any(isinstance(y, ast.Name) and y.id == t for y in ast.walk(a.value)):
                return None
            if isinstance(b, ast.Return) and isinstance(b.value, ast.Name) and b.value.id == t:
                return t
            if isinstance(b, (ast.Assign, ast.AugAssign)) and isinstance(b.value, ast.Name) and b.value.id == t \
                    and not any(isinstance(y, ast.Name) and y.id == t for tg in (
                        b.targets if isinstance(b, ast.Assign) else [b.target]) for y in ast.walk(tg)):
                return t
            return None

        def scan(block):
            for i in range(len(block) - 1):
                t = is_pair(block[i], block[i + 1])
                if t is not None:
                    pairs.setdefault(t, []).append((block, block[i], block[i + 1]))
            for s_ in block:
                if isinstance(s_, (ast.FunctionDef, ast.AsyncFunctionDef, ast.ClassDef)):
                    continue
                for f in ("body", "orelse", "finalbody"):
                    sub = getattr(s_, f, None)
                    if isinstance(sub, list) and sub and isinstance(sub[0], ast.stmt):
                        scan(sub)
                if isinstance(s_, ast.Try):
                    for h in s_.handlers:
                        scan(h.body)
        scan(fn.body)
        for t, ps in pairs.items():
            if occurrences.get(t) != 2 * len(ps):
                continue
            for block, a, b in ps:
                b.value = a.value
                block[:] = [s_ for s_ in block if s_ is not a]
                n_folds += 1
    return n_folds


class ProgramModel:
    def __init__(self, repo=None):
        self.repo = repo or REPO
        self.root = os.path.join(self.repo, PKG)
        self.modules = {}     # modname -> (relpath, tree, source)
        self.imports = {}     # modname -> {local name: (module, name)}
        self.classes = {}     # class name -> ClassInfo
        self.dup_classes = {}
        self.functions = {}   # free function name -> (modname, FunctionDef)
        self.digest = None
        self.excluded = []
        self._mro = {}
        self._calc = {}
        self._init = {}
        self._parse()
        self._public_lists()

    # ------------------------------------------------------------------ parsing
    def _parse(self):
        if not os.path.isdir(self.root):
            raise AnalysisError(f"no package directory at {self.root}")
        h = hashlib.sha256()
        for dp, dn, fn in sorted(os.walk(self.root)):
            dn.sort()
            for f in sorted(fn):
                if not f.endswith(".py"):
                    continue
                p = os.path.join(dp, f)
                rel = os.path.relpath(p, self.root)
                ex = [e for e in EXCLUSIONS if rel.startswith(e)]
                if ex:
                    self.excluded.append((rel, EXCLUSIONS[ex[0]]))
                    continue
                src = open(p, encoding="utf-8").read()
                h.update(rel.encode())
                h.update(src.encode())
                try:
                    tree = ast.parse(src, p)
                except SyntaxError as e:
                    raise AnalysisError(f"cannot parse {rel}: {e}")
                name = PKG + "." + rel[:-3].replace(os.sep, ".")
                if name.endswith(".__init__"):
                    name = name[:-9]
                self.n_temps_folded = getattr(self, "n_temps_folded", 0) + fold_single_use_temporaries(tree)
                for n in ast.walk(tree):
                    for ch in ast.iter_child_nodes(n):
                        ch._parent = n
                self.modules[name] = (os.path.join(PKG, rel), tree, src)
        self.digest = h.hexdigest()
        for m, (rel, tree, _) in self.modules.items():
            d = {}
            for n in ast.walk(tree):
                if isinstance(n, ast.ImportFrom) and n.module:
                    for a in n.names:
                        d[a.asname or a.name] = (n.module, a.name)
            self.imports[m] = d
            for n in tree.body:
                if isinstance(n, ast.ClassDef):
                    ci = ClassInfo(n.name, m, rel, n, [])
                    if n.name in self.classes:
                        self.dup_classes.setdefault(n.name, [self.classes[n.name].module]).append(m)
                    else:
                        self.classes[n.name] = ci
                elif isinstance(n, ast.FunctionDef):
                    self.functions.setdefault(n.name, (m, n))
        for ci in self.classes.values():
            for b in ci.node.bases:
                if isinstance(b, ast.Name) and b.id in self.classes:
                    ci.bases.append(b.id)
        # the modules as written, for the few rules that are about call sites as such (R-THREAD: "a builder passes its
        # own `hours` as the callee's `hours`")
        from .astutil import clone, set_parents
        self.raw_modules = {m: (rel, set_parents(clone(tree))) for m, (rel, tree, _) in self.modules.items()}
        # canonical form (efa/canon.py): constants substituted, private helpers inlined, temporaries folded
        if os.environ.get("EFA_NO_CANON") != "1":
            from .canon import Canonicaliser, substitute_constants, lower_match_statements
            self.n_match_lowered = sum(lower_match_statements(tree) for _, tree, _ in self.modules.values())
            from .canon import lower_partialmethods, lower_callable_instances
            self.n_partialmethods = sum(lower_partialmethods(tree) for _, tree, _ in self.modules.values())
            self.n_callable_instances = sum(lower_callable_instances(tree) for _, tree, _ in self.modules.values())
            n_const = sum(substitute_constants(tree) for _, tree, _ in self.modules.values())
            self.canon_stats = Canonicaliser(self).run()
            self.canon_stats["constants_substituted"] = n_const
            self.functions = {}
            for m, (rel, tree, _) in self.modules.items():
                self.n_temps_folded += fold_single_use_temporaries(tree)
                for n in ast.walk(tree):
                    for ch in ast.iter_child_nodes(n):
                        ch._parent = n
                for n in tree.body:
                    if isinstance(n, ast.FunctionDef):
                        self.functions.setdefault(n.name, (m, n))
            self._mro = {}

    def path_of(self, cls):
        return self.classes[cls].path

    def module_tree(self, suffix):
        for m, (rel, tree, src) in self.modules.items():
            if rel.endswith(suffix):
                return rel, tree
        raise AnalysisError(f"anchor module {suffix} not found")

    def raw_module_tree(self, suffix):
        for m, (rel, tree) in self.raw_modules.items():
            if rel.endswith(suffix):
                return rel, tree
        raise AnalysisError(f"anchor module {suffix} not found")

    def find_function(self, suffix, qualname):
        """Locate Class.method or function in the module whose path ends with suffix; AnalysisError if gone."""
        rel, tree = self.module_tree(suffix)
        parts = qualname.split(".")
        body = tree.body
        node = None
        for i, p in enumerate(parts):
            node = next((n for n in body if isinstance(n, (ast.ClassDef, ast.FunctionDef)) and n.name == p), None)
            if node is None:
                raise AnalysisError(f"anchor {qualname} vanished from {rel}")
            body = node.body
        return rel, node

    # ------------------------------------------------------------------ classes
    def mro(self, cn):
        if cn in self._mro:
            return self._mro[cn]

        def merge(seqs):
            res = []
            seqs = [list(s) for s in seqs if s]
            while seqs:
                for s in seqs:
                    h = s[0]
                    if not any(h in t[1:] for t in seqs):
                        break
                else:
                    raise AnalysisError(f"inconsistent MRO for {cn}")
                res.append(h)
                seqs = [[x for x in s if x != h] for s in seqs]
                seqs = [s for s in seqs if s]
            return res
        bs = self.classes[cn].bases
        out = [cn] + merge([self.mro(b) for b in bs] + [list(bs)])
        self._mro[cn] = out
        return out

    def is_model(self, cn):
        return cn in self.classes and MODEL_ROOT in self.mro(cn)

    def issub(self, c, d):
        return c in self.classes and d in self.mro(c)

    def subclasses(self, cn):
        return [k for k in self.classes if cn in self.mro(k)]

    def pub(self, cn):
        """Concrete public classes that are cn or subclasses of cn."""
        return [q for q in self.ALL if cn in self.mro(q)]

    def find_method(self, cn, name, after=None):
        """(owner, FunctionDef) of `name` along the MRO of cn (after class `after` if given: super())."""
        m = self.mro(cn)
        if after is not None:
            m = m[m.index(after) + 1:]
        for k in m:
            for n in self.classes[k].node.body:
                if isinstance(n, ast.FunctionDef) and n.name == name:
                    return k, n
        return None, None

    def helper_finder(self, cn):
        """name -> FunctionDef of a method of cn (along its MRO), for the helper-inlining views of astutil"""
        return (lambda name: self.find_method(cn, name)[1]) if cn in self.classes else (lambda name: None)

    def function_finder(self, rel):
        """name -> module-level FunctionDef of the module with path `rel` (for the helper views of astutil)"""
        tree = next((t for m, (r, t, _) in self.modules.items() if r == rel), None)
        fs = {f.name: f for f in tree.body if isinstance(f, ast.FunctionDef)} if tree is not None else {}
        return lambda name: fs.get(name)

    def classes_in_hierarchies(self):
        """names of the classes that belong to the model / explainable / link hierarchies (everything the program model
        indexes as a class of the package)"""
        roots = {"ModelingObject", "ObjectLinkedToModelingObj", "ModelingUpdate"}
        return {c for c in self.classes if roots & set(self.mro(c))}

    def package_function_finder(self):
        """name -> the module-level FunctionDef of that name anywhere in the package, when exactly one module defines it
        (helpers imported from a sibling module)"""
        if getattr(self, "_pkg_functions", None) is None:
            fs = {}
            for m, (r, t, _) in self.modules.items():
                for f in t.body:
                    if isinstance(f, ast.FunctionDef):
                        fs.setdefault(f.name, []).append(f)
            self._pkg_functions = {k: v[0] for k, v in fs.items() if len(v) == 1}
        return lambda name: self._pkg_functions.get(name)

    def package_class_method_finder(self):
        """(class name, method name) -> the FunctionDef of a static / class method of a module-level class defined in exactly
        one module of the package (`HourSplit.of(...)`: a helper that lives in a small record / namespace class)"""
        if getattr(self, "_pkg_class_methods", None) is None:
            cs = {}
            for m, (r, t, _) in self.modules.items():
                for c in t.body:
                    if isinstance(c, ast.ClassDef):
                        cs.setdefault(c.name, []).append(c)
            self._pkg_class_methods = {
                (k, f.name): f for k, v in cs.items() if len(v) == 1 for f in v[0].body
                if isinstance(f, ast.FunctionDef) and (is_static(f) or is_classmethod(f))}
        return lambda cn, name: self._pkg_class_methods.get((cn, name))

    def unique_property_finder(self):
        """name -> FunctionDef of the property of that name when exactly one class of the package (model class or not)
        defines one: `<anything>.aware_time_span` can then only be that property"""
        if getattr(self, "_unique_props", None) is None:
            found = {}
            for m, (r, t, _) in self.modules.items():
                for c in [x for x in ast.walk(t) if isinstance(x, ast.ClassDef)]:
                    for f in c.body:
                        if isinstance(f, ast.FunctionDef) and is_property(f):
                            found.setdefault(f.name, []).append(f)
            self._unique_props = {k: v[0] for k, v in found.items() if len(v) == 1}
        return lambda name: self._unique_props.get(name)

    def any_helper_finder(self, rel=None):
        """name -> FunctionDef for: a function of the module `rel`, a module-level function defined once in the package, or
        (dotted `Class.method`) a static / class method of a module-level class defined once in the package"""
        here = self.function_finder(rel) if rel is not None else (lambda n: None)
        pkg, cm = self.package_function_finder(), self.package_class_method_finder()

        def find(name):
            if "." in name:
                c, m = name.split(".", 1)
                return cm(c, m)
            return here(name) or pkg(name)
        return find

    def own_methods(self, cn):
        return [n for n in self.classes[cn].node.body if isinstance(n, ast.FunctionDef)]

    # ------------------------------------------------------------------ list evaluation
    def _class_const(self, cn, name):
        for k in self.mro(cn):
            for n in self.classes[k].node.body:
                if isinstance(n, ast.Assign) and len(n.targets) == 1 and isinstance(n.targets[0], ast.Name) \
                        and n.targets[0].id == name:
                    return k, n.value
        return None, None

    def _module_const(self, modname, name):
        _, tree, _ = self.modules[modname]
        for n in tree.body:
            if isinstance(n, ast.Assign) and len(n.targets) == 1 and isinstance(n.targets[0], ast.Name) \
                    and n.targets[0].id == name:
                return n.value
        return None

    def eval_str_list(self, cn, owner, expr, prop):
        if isinstance(expr, (ast.List, ast.Tuple)):
            out = []
            for e in expr.elts:
                if isinstance(e, ast.Starred):
                    # [*names, …]: the names spliced in where they stand
                    out += self.eval_str_list(cn, owner, e.value, prop)
                    continue
                if not (isinstance(e, ast.Constant) and isinstance(e.value, str)):
                    raise AnalysisError(f"{owner}.{prop}: non-literal list element {ast.unparse(e)}")
                out.append(e.value)
            return out
        if isinstance(expr, ast.Dict) and all(isinstance(k_, ast.Constant) and isinstance(k_.value, str) for k_ in expr.keys):
            # a dict literal iterated over / spliced: its keys, in order
            return [k_.value for k_ in expr.keys]
        if isinstance(expr, ast.BinOp) and isinstance(expr.op, ast.Add):
            return self.eval_str_list(cn, owner, expr.left, prop) + self.eval_str_list(cn, owner, expr.right, prop)
        if isinstance(expr, ast.Attribute) and isinstance(expr.value, ast.Call) \
                and isinstance(expr.value.func, ast.Name) and expr.value.func.id == "super":
            k, f = self.find_method(cn, expr.attr, after=owner)
            if f is None:
                raise AnalysisError(f"{owner}.{prop}: super().{expr.attr} not found")
            return self.eval_prop_str_list(cn, k, f)
        if isinstance(expr, ast.Call) and isinstance(expr.func, ast.Name) and expr.func.id == "list" and expr.args:
            return self.eval_str_list(cn, owner, expr.args[0], prop)
        if isinstance(expr, ast.Attribute) and isinstance(expr.value, ast.Name) and expr.value.id in ("self", "cls"):
            k, v = self._class_const(cn, expr.attr)
            if v is not None:
                return self.eval_str_list(cn, k, v, prop)
            k, f = self.find_method(cn, expr.attr)
            if f is not None and is_property(f):
                return self.eval_prop_str_list(cn, k, f)
        if isinstance(expr, ast.Name):
            v = self._module_const(self.classes[owner].module, expr.id)
            if v is not None:
                return self.eval_str_list(cn, owner, v, prop)
        if isinstance(expr, ast.ListComp) and all(isinstance(g.target, ast.Name) and not g.ifs for g in expr.generators) \
                and not (len(expr.generators) == 1 and isinstance(expr.elt, ast.Name)):
            # [f"{quantity}_{resource}_per_instance" for quantity in self.A for resource in self.B]: names built from the
            # members of tables that reduce to names themselves, the first generator outermost
            def fmt(e_, env_):
                if isinstance(e_, ast.Constant) and isinstance(e_.value, str):
                    return e_.value
                if isinstance(e_, ast.Name) and e_.id in env_:
                    return env_[e_.id]
                if isinstance(e_, ast.JoinedStr):
                    parts = []
                    for v_ in e_.values:
                        if isinstance(v_, ast.Constant):
                            parts.append(str(v_.value))
                        elif isinstance(v_, ast.FormattedValue) and v_.conversion == -1 and v_.format_spec is None:
                            p_ = fmt(v_.value, env_)
                            if p_ is None:
                                return None
                            parts.append(p_)
                        else:
                            return None
                    return "".join(parts)
                if isinstance(e_, ast.BinOp) and isinstance(e_.op, ast.Add):
                    l_, r_ = fmt(e_.left, env_), fmt(e_.right, env_)
                    return None if l_ is None or r_ is None else l_ + r_
                return None
            domains = [(g.target.id, self.eval_str_list(cn, owner, g.iter, prop)) for g in expr.generators]
            out = []

            def rec(i, env_):
                if i == len(domains):
                    v_ = fmt(expr.elt, env_)
                    if v_ is None:
                        raise AnalysisError(f"{owner}.{prop}: cannot reduce the element `{ast.unparse(expr.elt)[:60]}` to a name")
                    out.append(v_)
                    return
                for val in domains[i][1]:
                    rec(i + 1, dict(env_, **{domains[i][0]: val}))
            rec(0, {})
            return out
        if isinstance(expr, ast.ListComp) and len(expr.generators) == 1 and isinstance(expr.elt, ast.Name) \
                and isinstance(expr.generators[0].target, ast.Name) and expr.elt.id == expr.generators[0].target.id:
            # [a for a in <names> if <the class has a method derived from a>]: decidable on the class table
            g = expr.generators[0]
            base = self.eval_str_list(cn, owner, g.iter, prop)
            out = []
            for a in base:
                keep = True
                for t in g.ifs:
                    r = self._eval_name_filter(cn, t, g.target.id, a)
                    if r is None:
                        raise AnalysisError(f"{owner}.{prop}: filter `{ast.unparse(t)[:60]}` is not decidable on the class table")
                    keep = keep and r
                if keep:
                    out.append(a)
            return out
        raise AnalysisError(f"{owner}.{prop}: cannot reduce {ast.unparse(expr)[:80]} to a list of string literals")

    def _eval_name_filter(self, cn, t, var, value):
        """truth of `hasattr(self, f"update_{var}")` / `getattr(self, f"…{var}…", None) is not None` / `var in <names>`
        for var == value on class cn; None when not decidable"""
        def fmt(e):
            if isinstance(e, ast.JoinedStr):
                parts = []
                for v in e.values:
                    if isinstance(v, ast.Constant):
                        parts.append(str(v.value))
                    elif isinstance(v, ast.FormattedValue) and isinstance(v.value, ast.Name) and v.value.id == var:
                        parts.append(value)
                    else:
                        return None
                return "".join(parts)
            if isinstance(e, ast.BinOp) and isinstance(e.op, ast.Add):
                l, r = fmt(e.left), fmt(e.right)
                return None if l is None or r is None else l + r
            if isinstance(e, ast.Constant) and isinstance(e.value, str):
                return e.value
            if isinstance(e, ast.Name) and e.id == var:
                return value
            return None

        def has(name):
            return any(isinstance(n, ast.FunctionDef) and n.name == name for k in self.mro(cn) for n in self.classes[k].node.body)
        if isinstance(t, ast.UnaryOp) and isinstance(t.op, ast.Not):
            r = self._eval_name_filter(cn, t.operand, var, value)
            return None if r is None else not r
        if isinstance(t, ast.Call) and isinstance(t.func, ast.Name) and t.func.id == "hasattr" and len(t.args) == 2 \
                and isinstance(t.args[0], ast.Name) and t.args[0].id in ("self", "cls"):
            nm = fmt(t.args[1])
            return None if nm is None else has(nm)
        if isinstance(t, ast.Compare) and len(t.ops) == 1 and isinstance(t.ops[0], (ast.IsNot, ast.Is)) \
                and isinstance(t.comparators[0], ast.Constant) and t.comparators[0].value is None \
                and isinstance(t.left, ast.Call) and isinstance(t.left.func, ast.Name) and t.left.func.id == "getattr" \
                and len(t.left.args) == 3 and isinstance(t.left.args[2], ast.Constant) and t.left.args[2].value is None \
                and isinstance(t.left.args[0], ast.Name) and t.left.args[0].id in ("self", "cls"):
            nm = fmt(t.left.args[1])
            if nm is None:
                return None
            return has(nm) if isinstance(t.ops[0], ast.IsNot) else not has(nm)
        return None

    def eval_prop_str_list(self, cn, owner, f):
        rets = [s for s in ast.walk(f) if isinstance(s, ast.Return)]
        if len(rets) != 1 or rets[0].value is None:
            raise AnalysisError(f"{owner}.{f.name}: expected exactly one return")
        from .astutil import fully_expanded     # `result = [...] + super().x; return result`
        return self.eval_str_list(cn, owner, fully_expanded(rets[0].value, f), f.name)

    def calc(self, cn):
        if cn not in self._calc:
            k, f = self.find_method(cn, "calculated_attributes")
            self._calc[cn] = self.eval_prop_str_list(cn, k, f) if f is not None else []
        return self._calc[cn]

    def no_update_attrs(self, cn):
        k, f = self.find_method(cn, "attributes_that_shouldnt_trigger_update_logic")
        return self.eval_prop_str_list(cn, k, f)

    # ------------------------------------------------------------------ public lists and slots
    def _public_lists(self):
        rel, tree = self.module_tree("core/all_classes_in_order.py")
        env = {}

        funcs = {f.name: f for f in tree.body if isinstance(f, ast.FunctionDef)}

        def ev(e, loc=None, depth=0):
            """value of a class-list expression: a list of class names (a list of such lists where the code builds one);
            understands literals, +, list() / tuple(), sum(lists, []), itertools.chain, comprehensions over lists and
            the small functions of the module itself"""
            loc = loc or {}
            if depth > 6:
                raise AnalysisError(f"{rel}: cannot evaluate {ast.unparse(e)[:80]}")
            if isinstance(e, (ast.List, ast.Tuple)):
                out = []
                for x in e.elts:
                    if isinstance(x, ast.Starred):
                        out += ev(x.value, loc, depth)
                        continue
                    if isinstance(x, ast.Name) and x.id not in loc and x.id not in env:
                        out.append(x.id)
                    elif isinstance(x, (ast.Name, ast.List, ast.Tuple, ast.Call, ast.BinOp, ast.ListComp)):
                        out.append(ev(x, loc, depth))
                    else:
                        raise AnalysisError(f"{rel}: non-name element {ast.unparse(x)}")
                return out
            if isinstance(e, ast.Name) and e.id in loc:
                return loc[e.id]
            if isinstance(e, ast.Name) and e.id in env:
                return env[e.id]
            if isinstance(e, ast.Name):
                return e.id         # a class
            if isinstance(e, ast.Call) and isinstance(e.func, ast.Name) and e.func.id in ("list", "tuple") \
                    and len(e.args) == 1 and not e.keywords:
                return list(ev(e.args[0], loc, depth))
            if isinstance(e, ast.BinOp) and isinstance(e.op, ast.Add):
                return ev(e.left, loc, depth) + ev(e.right, loc, depth)
            if isinstance(e, ast.Call) and isinstance(e.func, ast.Name) and e.func.id == "sum" and e.args:
                start = ev(e.args[1], loc, depth) if len(e.args) > 1 else next(
                    (ev(k.value, loc, depth) for k in e.keywords if k.arg == "start"), [])
                out = list(start)
                for part in ev(e.args[0], loc, depth):
                    out += part
                return out
            if isinstance(e, ast.Call) and ast.unparse(e.func) in ("chain", "itertools.chain") and not e.keywords:
                out = []
                for a in e.args:
                    parts = ev(a.value, loc, depth) if isinstance(a, ast.Starred) else [ev(a, loc, depth)]
                    for part in parts:
                        out += part
                return out
            if isinstance(e, ast.Call) and ast.unparse(e.func) in ("chain.from_iterable", "itertools.chain.from_iterable") \
                    and len(e.args) == 1:
                out = []
                for part in ev(e.args[0], loc, depth):
                    out += part
                return out
            if isinstance(e, (ast.ListComp, ast.GeneratorExp)) and all(
                    isinstance(g.target, ast.Name) and not g.ifs for g in e.generators):
                out = []

                def loop(i, l2):
                    if i == len(e.generators):
                        out.append(ev(e.elt, l2, depth))
                        return
                    for item in ev(e.generators[i].iter, l2, depth):
                        loop(i + 1, dict(l2, **{e.generators[i].target.id: item}))
                loop(0, dict(loc))
                return out
            if isinstance(e, ast.Call) and isinstance(e.func, ast.Name) and e.func.id in funcs and not e.keywords:
                f = funcs[e.func.id]
                body = [b for b in f.body if not (isinstance(b, ast.Expr) and isinstance(b.value, ast.Constant))]
                if len(body) == 1 and isinstance(body[0], ast.Return) and body[0].value is not None \
                        and not f.args.kwonlyargs and not f.args.kwarg:
                    args = []
                    for a in e.args:
                        if isinstance(a, ast.Starred):
                            args += ev(a.value, loc, depth)
                        else:
                            args.append(ev(a, loc, depth))
                    ps = [a.arg for a in f.args.args]
                    l2 = dict(zip(ps, args))
                    if f.args.vararg is not None:
                        l2[f.args.vararg.arg] = args[len(ps):]
                    elif len(args) != len(ps):
                        raise AnalysisError(f"{rel}: cannot evaluate {ast.unparse(e)[:80]}")
                    return ev(body[0].value, l2, depth + 1)
            raise AnalysisError(f"{rel}: cannot evaluate {ast.unparse(e)[:80]}")
        for n in tree.body:
            if isinstance(n, ast.Assign) and len(n.targets) == 1 and isinstance(n.targets[0], ast.Name):
                env[n.targets[0].id] = ev(n.value)
        self.order_name = "CANONICAL_COMPUTATION_ORDER"
        if "CANONICAL_COMPUTATION_ORDER" not in env:
            # the constant was renamed / merged: the recomputation order is whatever class list the chain optimiser
            # ranks objects by
            used = []
            try:
                _, opt = self.find_function("abstract_modeling_classes/modeling_object.py",
                                            "optimize_mod_objs_computation_chain")
                used = sorted({n.id for n in ast.walk(opt) if isinstance(n, ast.Name) and n.id in env})
            except AnalysisError:
                pass
            if len(used) != 1:
                raise AnalysisError(f"{rel}: CANONICAL_COMPUTATION_ORDER vanished")
            self.order_name = used[0]
        for k in ("ALL_EFOOTPRINT_CLASSES", self.order_name):
            if k not in env:
                raise AnalysisError(f"{rel}: {k} vanished")
        self.ALL = env["ALL_EFOOTPRINT_CLASSES"]
        self.ORDER = env[self.order_name]
        self.class_lists = env
        for c in self.ALL + self.ORDER:
            if c not in self.classes:
                raise AnalysisError(f"{rel}: class {c} is not defined in the analysed scope")

    def slots(self, cn):
        return [i for i, k in enumerate(self.ORDER) if k in self.mro(cn)]

    def slot(self, cn):
        s = self.slots(cn)
        if s and self.order_name != "CANONICAL_COMPUTATION_ORDER":
            # fallback order list (see _public_lists): objects are ranked by the first class of the list they derive from
            return s[0]
        if len(s) != 1:
            raise AnalysisError(f"{cn} is in {len(s)} slots of {self.order_name}")
        return s[0]

    # ------------------------------------------------------------------ annotations and __init__ attributes
    def ann(self, a):
        """annotation -> (shape, names): shape 'one'/'list' for model classes, 'val' otherwise."""
        if a is None:
            return None
        if isinstance(a, ast.Name):
            if a.id in self.classes and self.is_model(a.id):
                return ("one", frozenset({a.id}))
            return ("val", frozenset({a.id}))
        if isinstance(a, ast.Constant):
            if isinstance(a.value, str) and a.value in self.classes and self.is_model(a.value):
                return ("one", frozenset({a.value}))
            return ("val", frozenset({str(a.value)}))
        if isinstance(a, ast.Subscript):
            inner = self.ann(a.slice)
            if inner and inner[0] == "one" and isinstance(a.value, ast.Name) and a.value.id in ("List", "list"):
                return ("list", inner[1])
            return ("val", inner[1] if inner else frozenset({"?"}))
        if isinstance(a, ast.BinOp) and isinstance(a.op, ast.BitOr):
            l, r = self.ann(a.left), self.ann(a.right)
            return (l[0], l[1] | (r[1] if r else frozenset()))
        return ("val", frozenset({"?"}))

    def init_of(self, cn):
        for n in self.classes[cn].node.body:
            if isinstance(n, ast.FunctionDef) and n.name == "__init__":
                return n
        return None

    def ctor(self, cn):
        """(owner, FunctionDef) of the effective constructor."""
        return self.find_method(cn, "__init__")

    def ctor_params(self, cn):
        k, f = self.ctor(cn)
        out = {}
        if f is None:
            return out
        args = f.args.args[1:] + f.args.kwonlyargs
        for a in args:
            out[a.arg] = a.annotation
        return out

    @staticmethod
    def root_param(e, params):
        """Follow `.set_label(..)`, `.to(..)`, `(p or X)`, Wrapper(p) down to a constructor parameter name."""
        while True:
            if isinstance(e, ast.Name):
                return e.id if e.id in params else None
            if isinstance(e, ast.Call):
                if isinstance(e.func, ast.Attribute) and e.func.attr in ("set_label", "to", "copy"):
                    e = e.func.value
                elif isinstance(e.func, ast.Name) and e.args and e.func.id in (
                        "ContextualModelingObjectAttribute", "ListLinkedToModelingObj"):
                    e = e.args[0]
                else:
                    return None
            elif isinstance(e, ast.BoolOp):
                e = e.values[0]
            else:
                return None

    def init_attrs(self, cn):
        """attr -> AttrInfo for every `self.X = ...` in the constructors along the MRO (most derived wins)."""
        if cn in self._init:
            return self._init[cn]
        out = {}
        for k in reversed(self.mro(cn)):
            f = self.init_of(k)
            if f is None:
                continue
            params = {a.arg: self.ann(a.annotation) for a in f.args.args[1:] + f.args.kwonlyargs}
            for n in ast.walk(f):
                if not (isinstance(n, ast.Assign) and len(n.targets) == 1):
                    continue
                t = n.targets[0]
                if not (isinstance(t, ast.Attribute) and isinstance(t.value, ast.Name) and t.value.id == "self"):
                    continue
                attr, v = t.attr, n.value
                if isinstance(v, ast.Name) and v.id not in params:
                    from .astutil import reaching_value      # `tmp = <expr>; self.a = tmp`
                    v = reaching_value(n, v.id) or v
                p = self.root_param(v, params)
                if isinstance(v, ast.Call) and isinstance(v.func, ast.Name) and v.func.id in (
                        "EmptyExplainableObject", "ExplainableObjectDict") and not v.args:
                    out[attr] = AttrInfo(attr, "placeholder", k, n)
                elif p and params[p] and params[p][0] in ("one", "list"):
                    out[attr] = AttrInfo(attr, "link", k, n, params[p][0], params[p][1], param=p)
                elif p and params[p]:
                    kinds = frozenset(E_KIND[x] for x in params[p][1] if x in E_KIND)
                    if kinds:
                        out[attr] = AttrInfo(attr, "input", k, n, valkinds=kinds, param=p)
                    else:
                        out[attr] = AttrInfo(attr, "plain", k, n, param=p)
                elif p:
                    out[attr] = AttrInfo(attr, "plain", k, n, param=p)   # unannotated; may become a link below
                else:
                    out[attr] = AttrInfo(attr, "plain", k, n)
        # an inherited attribute fed by an unannotated / loosely annotated parameter takes the annotation of the
        # same-named constructor parameter of the most derived class (GenAIJob(service: GenAIModel))
        for attr, ai in list(out.items()):
            if ai.param is None:
                continue
            for k in self.mro(cn):
                f = self.init_of(k)
                if f is None:
                    continue
                hit = None
                for a in f.args.args[1:] + f.args.kwonlyargs:
                    if a.arg == attr:
                        an = self.ann(a.annotation)
                        if an and an[0] in ("one", "list"):
                            hit = an
                if hit:
                    out[attr] = AttrInfo(attr, "link", ai.owner, ai.node, hit[0], hit[1], param=ai.param)
                    break
        self._init[cn] = out
        return out

    def link_attrs(self, cn):
        return {a: i for a, i in self.init_attrs(cn).items() if i.kind == "link"}

    def link_targets(self, cn, attr):
        """Public concrete classes an object held in link (cn, attr) can have."""
        ai = self.init_attrs(cn).get(attr)
        out = []
        declared = set(ai.targets) if ai and ai.kind == "link" else set()
        if not declared:
            for k in self.subclasses(cn):
                a2 = self.init_attrs(k).get(attr)
                if a2 and a2.kind == "link":
                    declared |= set(a2.targets)
        for d in sorted(declared):
            for q in self.pub(d):
                if q not in out:
                    out.append(q)
        return out

    def public_links(self):
        """{(public class, attr): (kind, [public target classes])}"""
        out = {}
        for c in self.ALL:
            for a, ai in self.link_attrs(c).items():
                out[(c, a)] = (ai.link_kind, self.link_targets(c, a))
        return out

    def containers(self, tn):
        """Public classes holding a link through which an object of public class tn can be referenced."""
        out = []
        for (c, a), (kind, tg) in self.public_links().items():
            if tn in tg and c not in out:
                out.append(c)
        return out

    def super_init_call(self, cn):
        """The `super().__init__(...)` call in cn's own constructor -> {parent param: expr}, or None."""
        f = self.init_of(cn)
        if f is None:
            return None
        for n in ast.walk(f):
            if isinstance(n, ast.Call) and isinstance(n.func, ast.Attribute) and n.func.attr == "__init__" \
                    and isinstance(n.func.value, ast.Call) and isinstance(n.func.value.func, ast.Name) \
                    and n.func.value.func.id == "super":
                pk, pf = self.find_method(cn, "__init__", after=cn)
                if pf is None:
                    return None
                names = [a.arg for a in pf.args.args[1:]]
                m = {}
                for i, a in enumerate(n.args):
                    if i < len(names):
                        m[names[i]] = a
                for kw in n.keywords:
                    if kw.arg:
                        m[kw.arg] = kw.value
                return pk, m, n
        return None

    # ------------------------------------------------------------------ evidence helpers
    def summary(self):
        return {
            "files_parsed": len(self.modules),
            "source_digest_sha256": self.digest,
            "classes_in_scope": len(self.classes),
            "public_classes": len(self.ALL),
            "slots": len(self.ORDER),
            "calculated_pairs": sum(len(self.calc(c)) for c in self.ALL),
            "excluded": [f"{p}: {r}" for p, r in self.excluded],
        }
