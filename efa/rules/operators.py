"""The explainable-operator layer: R-OPREC, R-OPPAR, R-COMM, R-PURE, R-FILL, R-SHIFT, R-RAW2, R-SUMMARY (DESIGN §5.C)."""
import ast

from . import rule
from ..frontend import AnalysisError, norm
from ..report import Finding, RuleResult
from ..interp import E_METHODS, CTOR_PARAMS

EO = "abstract_modeling_classes/explainable_objects.py"
EB = "abstract_modeling_classes/explainable_object_base_class.py"
CLASSES = ("EmptyExplainableObject", "ExplainableQuantity", "ExplainableHourlyQuantities")
KIND_OF_CLASS = {"EmptyExplainableObject": "EMPTY", "ExplainableQuantity": "EQ", "ExplainableHourlyQuantities": "EHQ"}
CLASS_OF_KIND = {v: k for k, v in KIND_OF_CLASS.items()}
KINDS = ("ZERO", "EMPTY", "EQ", "EHQ")
ISINSTANCE = {"EmptyExplainableObject": {"EMPTY"}, "ExplainableQuantity": {"EQ"},
              "ExplainableHourlyQuantities": {"EHQ"}, "ExplainableObject": {"EMPTY", "EQ", "EHQ"}}
BIN = {"__add__": "+", "__radd__": "+", "__sub__": "-", "__rsub__": "-", "__mul__": "*", "__rmul__": "*",
       "__truediv__": "/", "__rtruediv__": "/"}
AST_OP = {ast.Add: "+", ast.Sub: "-", ast.Mult: "*", ast.Div: "/"}
METHOD_OP = {"add": "+", "sub": "-", "mul": "*", "div": "/", "truediv": "/"}


def _methods(pm, cls):
    return {f.name: f for f in pm.own_methods(cls)}


def _find(pm, cls, name):
    owner, fn = pm.find_method(cls, name)
    return owner, fn


# ---------------------------------------------------------------------------------------------- dispatch evaluation
def _test_kinds(test, opname):
    """set of operand kinds for which `test` is true, or None if the test is not understood"""
    if isinstance(test, ast.UnaryOp) and isinstance(test.op, ast.Not):
        inner = _test_kinds(test.operand, opname)
        return None if inner is None else set(KINDS) - inner
    if isinstance(test, ast.Call) and isinstance(test.func, ast.Name) and test.func.id == "isinstance" \
            and isinstance(test.args[0], ast.Name) and test.args[0].id == opname:
        c = test.args[1]
        if isinstance(c, ast.Name) and c.id in ISINSTANCE:
            return set(ISINSTANCE[c.id])
        if isinstance(c, ast.Attribute) and c.attr == "Number":
            return {"ZERO"}
        if isinstance(c, ast.Tuple):
            out = set()
            for x in c.elts:
                if isinstance(x, ast.Name) and x.id in ISINSTANCE:
                    out |= ISINSTANCE[x.id]
                else:
                    return None
            return out
        return None
    if isinstance(test, ast.BoolOp):
        parts = [_test_kinds(v, opname) for v in test.values]
        if any(p is None for p in parts):
            return None
        out = parts[0]
        for p in parts[1:]:
            out = (out | p) if isinstance(test.op, ast.Or) else (out & p)
        return out
    if isinstance(test, ast.Compare) and isinstance(test.left, ast.Name) and test.left.id == opname \
            and len(test.ops) == 1 and isinstance(test.ops[0], ast.Eq) \
            and isinstance(test.comparators[0], ast.Constant) and test.comparators[0].value == 0:
        return {"ZERO"}       # `other == 0`: true for the number 0 (EMPTY == 0 is handled by an earlier branch)
    return None


class Outcome:
    def __init__(self, tag, cls=None, fn=None, node=None, kind=None, value=None, left=None, right=None, op=None,
                 swapped=False, const=None):
        self.tag, self.cls, self.fn, self.node, self.kind = tag, cls, fn, node, kind
        self.value, self.left, self.right, self.op, self.swapped, self.const = value, left, right, op, swapped, const


def _ctor_outcome(cls, fn, call, swapped, localdefs):
    names = CTOR_PARAMS[call.func.id]
    b = {}
    for i, a in enumerate(call.args):
        if i < len(names):
            b[names[i]] = a
    for k in call.keywords:
        if k.arg:
            b[k.arg] = k.value
    val = b.get("value")
    if isinstance(val, ast.Name) and val.id in localdefs:
        val = localdefs[val.id]
    op = b.get("operator")
    opv = None
    if isinstance(op, ast.Constant):
        opv = op.value
    elif isinstance(op, ast.JoinedStr):
        opv = "".join(v.value if isinstance(v, ast.Constant) else "{}" for v in op.values)
    return Outcome("ctor", cls, fn, call, KIND_OF_CLASS.get(call.func.id, call.func.id), val, b.get("left_parent"),
                   b.get("right_parent"), opv, swapped)


def _local_defs(fn):
    out = {}
    for n in ast.walk(fn):
        if isinstance(n, ast.Assign) and len(n.targets) == 1 and isinstance(n.targets[0], ast.Name):
            out[n.targets[0].id] = n.value
    return out


def evaluate(pm, cls, mname, kind, depth=0, swapped=False):
    """Outcome of `cls.mname(self, other)` when `other` has operand kind `kind` (follows delegations)."""
    if depth > 6:
        raise AnalysisError(f"delegation loop in {cls}.{mname}")
    owner, fn = pm.find_method(cls, mname)
    if fn is None or owner not in CLASSES:
        return Outcome("missing", cls, mname)
    params = [a.arg for a in fn.args.args]
    opname = params[1] if len(params) > 1 else None
    localdefs = _local_defs(fn)

    def run(body):
        for s in body:
            if isinstance(s, ast.If):
                ks = _test_kinds(s.test, opname)
                if ks is None:
                    # a data-dependent test inside a kind branch: harmless for the dispatch when neither arm leaves the
                    # method (it only prepares locals); otherwise the outcome depends on values and is not decided here
                    if not any(isinstance(x, (ast.Return, ast.Raise)) for x in ast.walk(s)):
                        continue
                    raise AnalysisError(f"{cls}.{mname}: dispatch test not understood: {norm(s.test)[:80]}")
                r = run(s.body) if kind in ks else run(s.orelse)
                if r is not None:
                    return r
            elif isinstance(s, ast.Return):
                from ..astutil import returned_expr
                v = returned_expr(s, fn)
                if isinstance(v, ast.Call) and isinstance(v.func, ast.Name) and v.func.id in CTOR_PARAMS:
                    o = _ctor_outcome(cls, fn, v, swapped, localdefs)
                    o.okind = kind
                    return o
                if isinstance(v, ast.Call) and isinstance(v.func, ast.Attribute) and isinstance(v.func.value, ast.Name) \
                        and v.func.attr.startswith("__") and len(v.args) == 1 and isinstance(v.args[0], ast.Name):
                    recv, arg = v.func.value.id, v.args[0].id
                    if recv == opname and arg == "self":
                        if kind == "ZERO":
                            raise AnalysisError(f"{cls}.{mname}: delegates to a number")
                        return evaluate(pm, CLASS_OF_KIND[kind], v.func.attr, KIND_OF_CLASS[cls], depth + 1, not swapped)
                    if recv == "self" and arg == opname:
                        return evaluate(pm, cls, v.func.attr, kind, depth + 1, swapped)
                if isinstance(v, ast.Constant):
                    return Outcome("const", cls, fn, s, const=v.value)
                if isinstance(v, ast.Name) and v.id == "self":
                    return Outcome("self", cls, fn, s, swapped=swapped)
                raise AnalysisError(f"{cls}.{mname}: return shape not understood: {norm(s)[:80]}")
            elif isinstance(s, ast.Raise):
                return Outcome("raise", cls, fn, s)
            elif isinstance(s, (ast.Assign, ast.Expr, ast.Pass)):
                continue
            else:
                raise AnalysisError(f"{cls}.{mname}: statement {type(s).__name__} not understood")
        return None
    r = run(fn.body)
    if r is None:
        return Outcome("const", cls, fn, fn, const=None)
    return r


def _roles(out, a_is_self):
    """map 'self'/'other' (of the method that finally ran) to operand tokens A (first written operand) / B"""
    params = [a.arg for a in out.fn.args.args] if out.fn is not None and not isinstance(out.fn, str) else ["self", "other"]
    me, ot = params[0], (params[1] if len(params) > 1 else "other")
    if out.swapped:
        return {me: "B", ot: "A"}
    return {me: "A", ot: "B"}


def _canon(expr, roles):
    """canonical text of a value / parent expression with operands renamed and commutative operations sorted"""
    if expr is None:
        return None

    def c(e):
        if isinstance(e, ast.Name):
            return roles.get(e.id, e.id)
        if isinstance(e, ast.Attribute):
            return f"{c(e.value)}.{e.attr}"
        if isinstance(e, ast.BinOp) and type(e.op) in AST_OP:
            l, r = c(e.left), c(e.right)
            sym = AST_OP[type(e.op)]
            if sym in "+*":
                l, r = sorted([l, r])
            return f"({l} {sym} {r})"
        if isinstance(e, ast.Call) and isinstance(e.func, ast.Attribute) and e.func.attr in METHOD_OP and e.args:
            l, r = c(e.func.value), c(e.args[0])
            sym = METHOD_OP[e.func.attr]
            if sym in "+*":
                l, r = sorted([l, r])
            return f"({l} {sym} {r})"
        if isinstance(e, ast.Constant):
            return repr(e.value)
        return norm(e)
    return c(expr)


def _sig(out):
    if out.tag == "ctor":
        roles = _roles(out, True)
        return ("ctor", out.kind, _canon(out.value, roles))
    if out.tag == "self":
        return ("operand", "B" if out.swapped else "A")
    if out.tag == "const":
        return ("const", out.const)
    return (out.tag,)


def _top_op(value):
    if isinstance(value, ast.BinOp) and type(value.op) in AST_OP:
        return AST_OP[type(value.op)], value.left, value.right
    if isinstance(value, ast.Call) and isinstance(value.func, ast.Attribute) and value.func.attr in METHOD_OP \
            and value.args:
        return METHOD_OP[value.func.attr], value.func.value, value.args[0]
    return None, None, None


def _root(e):
    while isinstance(e, (ast.Attribute, ast.Subscript, ast.Call)):
        e = e.func if isinstance(e, ast.Call) else e.value
    return e.id if isinstance(e, ast.Name) else None


# ---------------------------------------------------------------------------------------------- rules
@rule("R-OPREC")
def r_oprec(E):
    pm = E.pm
    res = RuleResult("R-OPREC", "in every binary-operator outcome that constructs a result, the recorded operator is "
                                "the computed one and (left_parent, right_parent) are the operands in the order they "
                                "occur in the value expression")
    rel, _ = pm.module_tree(EO)
    seen = set()
    for cls in CLASSES:
        for m, sym in BIN.items():
            for k in KINDS:
                try:
                    out = evaluate(pm, cls, m, k)
                except AnalysisError as e:
                    res.undecided.append(str(e))
                    continue
                if out.tag != "ctor" or out.op is None:
                    continue
                ident = (out.cls, out.fn.name, out.node.lineno)
                if ident in seen:
                    continue
                seen.add(ident)
                res.instances += 1
                where = f"{out.cls}.{out.fn.name}"
                k = getattr(out, "okind", k)     # operand kind seen by the method that finally ran
                key = f"{where} [{k}] :: {norm(out.node)[:100]}"
                osym = BIN.get(out.fn.name)
                if out.op not in ("+", "-", "*", "/"):
                    if out.op != "+ 0":
                        res.findings.append(Finding("R-OPREC", key, f"{where} records operator {out.op!r}, not an "
                                                    f"arithmetic symbol", rel, out.node.lineno, where))
                    continue
                l, r = (out.left.id if isinstance(out.left, ast.Name) else None), \
                       (out.right.id if isinstance(out.right, ast.Name) else None)
                if out.value is None:
                    # an empty result: nothing is computed; the record must name the operands in written order
                    params = [a.arg for a in out.fn.args.args]
                    want = (params[1], params[0]) if out.fn.name.startswith("__r") else (params[0], params[1])
                    if out.op != osym or (l, r) != want:
                        res.findings.append(Finding(
                            "R-OPREC", key, f"{where} records ({l} {out.op} {r}) for an empty result of "
                            f"`{want[0]} {osym} {want[1]}`", rel, out.node.lineno, where))
                    continue
                vsym, vl, vr = _top_op(out.value)
                if vsym is None:
                    # the operation done on the bare arrays of the two series, re-wrapped in a frame:
                    # pd.DataFrame({"value": PintArray(<a> + <b>, dtype=…)}, index=…) with <a>, <b> traced back to the
                    # series they were taken from
                    inner = next((c.args[0] for c in ast.walk(out.value) if isinstance(c, ast.Call)
                                  and norm(c.func) == "pint_pandas.PintArray" and c.args), None)
                    if isinstance(inner, ast.BinOp) and type(inner.op) in AST_OP and not isinstance(out.fn, str):
                        from .units import MagnitudeFlow, default_sink_of, module_dict_tables
                        from ..astutil import fully_expanded as _fx_o
                        host = out.fn
                        mf = MagnitudeFlow(host, default_sink_of, None, pm.helper_finder(out.cls))
                        hit = [parts for node, parts in mf.elementwise if node is inner]
                        if not hit:
                            # the frame may be bound to a local first: look for the operation among the expanded value
                            hit = [parts for node, parts in mf.elementwise if isinstance(node, ast.BinOp)
                                   and norm(node) == norm(inner)]
                        sides = []
                        for parts in hit[:1]:
                            for p_ in parts:
                                rs = set()
                                for i, _, _ in p_:
                                    rs |= mf.roots.get(i, {None})
                                sides.append(rs)
                        if len(sides) == 2 and all(len(x) == 1 and None not in x for x in sides):
                            vsym = AST_OP[type(inner.op)]
                            vl, vr = (ast.Name(id=next(iter(x)), ctx=ast.Load()) for x in sides)
                if vsym is None:
                    # value is one operand's value: only right when the other operand is neutral (EMPTY with + or -)
                    if not (k == "EMPTY" and out.op in "+-" and osym == out.op):
                        res.findings.append(Finding(
                            "R-OPREC", key, f"{where} records operator {out.op!r} but the value is not computed by "
                            f"that operation ({norm(out.value)[:60]})", rel, out.node.lineno, where))
                    elif _root(out.value) != l:
                        res.findings.append(Finding(
                            "R-OPREC", key, f"{where}: value taken from {_root(out.value)} but left_parent is {l}",
                            rel, out.node.lineno, where))
                    continue
                if vsym != out.op:
                    res.findings.append(Finding(
                        "R-OPREC", key, f"{where} computes {norm(out.value)[:60]} ({vsym}) but records operator "
                        f"{out.op!r}: explain() shows a formula that does not reproduce the value",
                        rel, out.node.lineno, where))
                if vsym != osym:
                    res.findings.append(Finding(
                        "R-OPREC", key, f"{where} implements {osym!r} but computes with {vsym!r}", rel,
                        out.node.lineno, where))
                # operands that are fields of a record built by a straight-line helper of the class (`aligned = self.
                # aligned_with(other)` … `aligned.left + aligned.right`): read as the fields' expressions
                if not isinstance(out.fn, str) and any(isinstance(x_, ast.Attribute) and isinstance(x_.value, ast.Name)
                                                       for x_ in (vl, vr)):
                    from ..astutil import record_bindings as _rb
                    from .units import module_record_classes as _mrc
                    mt_ = next((t for m_, (r_, t, _s) in pm.modules.items() if r_ == rel), None)
                    rcs_ = {k_: v_ for k_, v_ in (_mrc(mt_) if mt_ is not None else {}).items() if isinstance(v_, ast.ClassDef)}
                    binds_ = _rb(out.fn, pm.helper_finder(out.cls), None, rcs_) if rcs_ else {}

                    def through_record(e_):
                        if isinstance(e_, ast.Attribute) and isinstance(e_.value, ast.Name) and e_.value.id in binds_ \
                                and e_.attr in binds_[e_.value.id][1]:
                            return binds_[e_.value.id][1][e_.attr]
                        return e_
                    vl, vr = through_record(vl), through_record(vr)
                if (_root(vl), _root(vr)) != (l, r):
                    res.findings.append(Finding(
                        "R-OPREC", key, f"{where} computes {norm(out.value)[:60]} but records parents ({l}, {r}): "
                        f"operand order of the explanation differs from the computation", rel, out.node.lineno, where))
                elif len(res.samples) < 5:
                    res.samples.append({"method": where, "operand_kind": k, "value": norm(out.value)[:60],
                                        "operator": out.op, "parents": [l, r], "verdict": "agree"})
    res.floor = 20
    return res


def _flow_names(fn):
    """local name -> set of parameter names it (transitively) derives from (flow-insensitive)"""
    params = {a.arg for a in fn.args.args}
    dep = {p: {p} for p in params}
    changed = True
    while changed:
        changed = False
        for n in ast.walk(fn):
            if isinstance(n, (ast.Assign, ast.AugAssign)):
                tgts = n.targets if isinstance(n, ast.Assign) else [n.target]
                src = set()
                for x in ast.walk(n.value):
                    if isinstance(x, ast.Name) and x.id in dep:
                        src |= dep[x.id]
                for t in tgts:
                    for x in ast.walk(t):
                        if isinstance(x, ast.Name):
                            if not src <= dep.get(x.id, set()):
                                dep[x.id] = dep.get(x.id, set()) | src
                                changed = True
    return dep, params


def reaching_kinds(fn):
    """{id(return node): operand kinds of the second parameter that reach it}; None when the dispatch is not a pure
    isinstance chain (then every kind is assumed to reach every return)"""
    params = [a.arg for a in fn.args.args]
    if len(params) < 2:
        return None
    opname = params[1]
    out = {}

    def run(body, kinds):
        for s in body:
            if not kinds:
                return set()
            if isinstance(s, ast.If):
                ks = _test_kinds(s.test, opname)
                if ks is None:
                    raise AnalysisError("dispatch")
                a = run(s.body, kinds & ks)
                b = run(s.orelse, kinds - ks)
                kinds = a | b
            elif isinstance(s, ast.Return):
                out[id(s)] = out.get(id(s), set()) | kinds
                return set()
            elif isinstance(s, ast.Raise):
                return set()
        return kinds
    try:
        run(fn.body, set(KINDS))
    except AnalysisError:
        return None
    return out


E_PARAM_NAMES = {"other", "compared_object", "shift_duration", "local_timezone", "explainable_condition"}
OPPAR_EXCEPTIONS = {
    ("ExplainableObject", "__copy__"): "deliberately parentless twin: simulations use it to freeze untouched ancestors",
    ("EmptyExplainableObject", "__deepcopy__"): "copies the recorded parents of the original instead of pointing at it",
}


@rule("R-OPPAR")
def r_oppar(E):
    pm = E.pm
    res = RuleResult("R-OPPAR", "every method of the explainable classes that returns a new explainable whose value is "
                                "computed from self (and an explainable argument) records self (and that argument) as "
                                "parent, with an operator when the value is not literally self.value")
    for cls in CLASSES + ("ExplainableObject",):
        path = pm.path_of(cls)
        for fn in pm.own_methods(cls):
            if fn.name in ("__init__", "plot", "__str__", "__repr__", "to_json"):
                continue
            dep, params = _flow_names(fn)
            rk = reaching_kinds(fn)
            for n in ast.walk(fn):
                if not (isinstance(n, ast.Return) and isinstance(n.value, ast.Call)):
                    continue
                call = n.value
                fname = call.func.id if isinstance(call.func, ast.Name) else None
                if fname not in CTOR_PARAMS and not (isinstance(call.func, ast.Attribute) and
                                                     norm(call.func) == "self.__class__"):
                    continue
                names = CTOR_PARAMS.get(fname, CTOR_PARAMS["ExplainableObject"])
                b = {}
                for i, a in enumerate(call.args):
                    if i < len(names):
                        b[names[i]] = a
                for k in call.keywords:
                    if k.arg:
                        b[k.arg] = k.value
                res.instances += 1
                where = f"{cls}.{fn.name}"
                if (cls, fn.name) in OPPAR_EXCEPTIONS:
                    res.notes.append(f"{where}: exempt — {OPPAR_EXCEPTIONS[(cls, fn.name)]}")
                    continue
                used = set()
                val = b.get("value")
                if val is not None:
                    for x in ast.walk(val):
                        if isinstance(x, ast.Name) and x.id in dep:
                            used |= dep[x.id]
                elif fname == "EmptyExplainableObject":
                    # an empty result is "computed from" self and from every explainable argument that can reach here
                    used = {"self"}
                    for p in params:
                        if p in E_PARAM_NAMES:
                            kinds = rk.get(id(n), set(KINDS)) if rk is not None else set(KINDS)
                            if kinds & {"EMPTY", "EQ", "EHQ"}:
                                used.add(p)
                used &= ({"self"} | E_PARAM_NAMES)
                parents = set()
                for pk in ("left_parent", "right_parent"):
                    if pk in b:
                        for x in ast.walk(b[pk]):
                            if isinstance(x, ast.Name):
                                parents |= dep.get(x.id, {x.id})
                miss = used - parents
                key = f"{where} :: {norm(call)[:110]}"
                if miss:
                    res.findings.append(Finding(
                        "R-OPPAR", key, f"{where} returns a new {fname or 'explainable'} computed from "
                        f"{sorted(used)} but records only {sorted(parents & (E_PARAM_NAMES | {'self'}))} as parents: "
                        f"the dependency on {sorted(miss)} is lost for explain() and for recomputation",
                        path, n.lineno, where))
                    continue
                opn = b.get("operator")
                literal = val is not None and norm(val) in ("self.value", "copy(self.value)", "self.value.copy()")
                if opn is None and not literal and val is not None and fname != "EmptyExplainableObject":
                    res.findings.append(Finding(
                        "R-OPPAR", key + " no-operator", f"{where} computes {norm(val)[:60]} but records no operator",
                        path, n.lineno, where))
                elif len(res.samples) < 5:
                    res.samples.append({"method": where, "value_uses": sorted(used), "parents": sorted(
                        parents & (E_PARAM_NAMES | {"self"})), "verdict": "recorded"})
    res.floor = 45
    return res


@rule("R-COMM")
def r_comm(E):
    pm = E.pm
    res = RuleResult("R-COMM", "for + and *, the outcome for operand kinds (K1, K2) equals the outcome for (K2, K1) up "
                               "to swapping the operands of a commutative value expression (raise / result kind / "
                               "value expression)")
    rel, _ = pm.module_tree(EO)
    for fwd, rev, sym in (("__add__", "__radd__", "+"), ("__mul__", "__rmul__", "*")):
        for i, k1 in enumerate(KINDS):
            for k2 in KINDS[i:]:
                if k1 == "ZERO" and k2 == "ZERO":
                    continue
                res.instances += 1
                try:
                    if k1 == "ZERO":
                        # 0 + x  -> x.__radd__(0)   |  x + 0 -> x.__add__(0)
                        a = evaluate(pm, CLASS_OF_KIND[k2], rev, "ZERO", swapped=True)
                        b = evaluate(pm, CLASS_OF_KIND[k2], fwd, "ZERO")
                        sa, sb = _sig(a), _sig(b)
                        # roles: in `a` the explainable operand is written second
                        if a.tag == "ctor":
                            sa = ("ctor", a.kind, _canon(a.value, {"self": "A", "other": "B"}))
                        if a.tag == "self":
                            sa = ("operand", "A")
                    else:
                        a = evaluate(pm, CLASS_OF_KIND[k1], fwd, k2)                 # A op B, A is self
                        b = evaluate(pm, CLASS_OF_KIND[k2], fwd, k1, swapped=True)   # B op A, A is other
                        sa, sb = _sig(a), _sig(b)
                except AnalysisError as e:
                    res.undecided.append(str(e))
                    continue
                key = f"{sym} ({k1}, {k2})"
                if sa != sb:
                    res.findings.append(Finding(
                        "R-COMM", key, f"`{k1} {sym} {k2}` gives {sa} but `{k2} {sym} {k1}` gives {sb}: the operation "
                        f"is not commutative at the level of dispatch", rel,
                        getattr(a.node, "lineno", 0) if a.node is not None else 0,
                        f"{a.cls}.{fwd}"))
                elif len(res.samples) < 6:
                    res.samples.append({"operation": key, "outcome": list(sa), "verdict": "symmetric"})
    # identity laws at the level of dispatch: empty is neutral for +, absorbing for *
    for x in ("EMPTY", "EQ", "EHQ"):
        for sym, m in (("+", "__add__"), ("*", "__mul__")):
            for (cls_kind, other_kind) in ((x, "EMPTY"), ("EMPTY", x)):
                res.instances += 1
                try:
                    o = evaluate(pm, CLASS_OF_KIND[cls_kind], m, other_kind)
                except AnalysisError as e:
                    res.undecided.append(str(e))
                    continue
                key = f"{sym} identity ({cls_kind}, {other_kind})"
                want = x if sym == "+" else "EMPTY"
                got = None
                if o.tag == "ctor":
                    got = o.kind
                elif o.tag == "self":
                    # the operand returned is `self` of the method that finally ran
                    got = KIND_OF_CLASS[o.cls]
                elif o.tag == "const":
                    got = f"const {o.const}"
                else:
                    got = o.tag
                ok = got == want
                if ok and o.tag == "ctor" and sym == "+" and want != "EMPTY":
                    # the value must be the non-empty operand's value, unchanged
                    roles = _roles(o, True)
                    val = _canon(o.value, roles)
                    ok = val in ("A.value", "B.value")
                if not ok:
                    res.findings.append(Finding(
                        "R-COMM", key, f"`{cls_kind} {sym} {other_kind}` yields {got}"
                        f"{' (' + norm(o.value)[:40] + ')' if o.tag == 'ctor' and o.value is not None else ''}; an empty "
                        f"value must be {'neutral for addition' if sym == '+' else 'absorbing for multiplication'} "
                        f"(expected a result of kind {want})", rel, getattr(o.node, "lineno", 0),
                        f"{o.cls}.{m}"))
    # non-commutative operators: `a - b` / `a / b` handed to the other operand's *same* method with the operands swapped
    # (`other.__sub__(self)`) computes b - a; only the reflected method (`other.__rsub__(self)`) stands for a - b. The same
    # the other way round: `__rsub__(self, other)` answered by `self.__sub__(other)` computes self - other for other - self.
    noncomm = {"__sub__": "__rsub__", "__truediv__": "__rtruediv__", "__floordiv__": "__rfloordiv__", "__mod__": "__rmod__",
               "__pow__": "__rpow__"}
    refl = {v: k for k, v in noncomm.items()}
    scanned = 0
    for cls in CLASSES:
        for fn in pm.own_methods(cls):
            if fn.name not in noncomm and fn.name not in refl:
                continue
            params = [a.arg for a in fn.args.args]
            if len(params) < 2:
                continue
            me, ot = params[0], params[1]
            scanned += 1
            res.instances += 1
            # (only a delegation returned as it is: `-(self.__sub__(other))` is a correct reflected difference)
            for c in [r_.value for r_ in ast.walk(fn) if isinstance(r_, ast.Return) and isinstance(r_.value, ast.Call)
                      and isinstance(r_.value.func, ast.Attribute) and isinstance(r_.value.func.value, ast.Name)
                      and len(r_.value.args) == 1 and isinstance(r_.value.args[0], ast.Name) and not r_.value.keywords]:
                recv, arg, m = c.func.value.id, c.args[0].id, c.func.attr
                sym = {"__sub__": "-", "__truediv__": "/", "__floordiv__": "//", "__mod__": "%", "__pow__": "**"}[
                    fn.name if fn.name in noncomm else refl[fn.name]]
                bad = None
                if fn.name in noncomm and recv == ot and arg == me and m == fn.name:
                    bad = f"`{me} {sym} {ot}` is answered by `{ot}.{m}({me})`, which computes `{ot} {sym} {me}`"
                elif fn.name in refl and recv == me and arg == ot and m == refl[fn.name]:
                    bad = f"the reflected `{ot} {sym} {me}` is answered by `{me}.{m}({ot})`, which computes `{me} {sym} {ot}`"
                if bad:
                    res.findings.append(Finding(
                        "R-COMM", f"{cls}.{fn.name} :: swapped delegation of a non-commutative operator",
                        f"{cls}.{fn.name}: {bad}: the operands of a non-commutative operation are exchanged (an empty value "
                        f"minus a quantity comes out as that quantity, with the wrong sign)", rel, c.lineno, f"{cls}.{fn.name}"))
    if scanned < 3:
        raise AnalysisError(f"R-COMM: only {scanned} non-commutative operator methods found")
    res.floor = 28
    return res


VALUE_STORE_ALLOWED = {("ExplainableQuantity", "to"), ("ExplainableHourlyQuantities", "to"),
                       ("ExplainableQuantity", "ceil"), ("ExplainableHourlyQuantities", "round"),
                       ("EmptyExplainableObject", "__init__"), ("ExplainableObject", "__init__")}


def _stores_into_value(fn):
    """assignment statements of fn that store into <param>.value or a subscript of it"""
    params = {a.arg for a in fn.args.args}
    out = []
    for n in ast.walk(fn):
        tgts = []
        if isinstance(n, ast.Assign):
            tgts = n.targets
        elif isinstance(n, ast.AugAssign):
            tgts = [n.target]
        for t in tgts:
            base = t
            while isinstance(base, ast.Subscript):
                base = base.value
            if isinstance(base, ast.Name) and base is not t:
                # a local alias of the frame (`df = self.value; df["value"] = …`) stores into the same object
                from ..astutil import aliases
                base = aliases(fn).get(base.id, base)
            if isinstance(base, ast.Attribute) and base.attr == "value" and isinstance(base.value, ast.Name) \
                    and base.value.id in params:
                out.append((n, base.value.id))
    return out


_NP_INPLACE_FIRST = {"put", "place", "putmask", "copyto", "put_along_axis", "fill_diagonal"}


def _view_mutations(fn, find_function):
    """[(node, what)]: in-place numpy writes into an array that is a view of an operand's data — `<param>.value[…].values`,
    `.values.data`, `.to_numpy()` without copy=True, `.magnitude`, a plain slice of one, or a local bound to one (also
    through the module-level helpers the method hands the array to, read in the caller's terms): `np.add.at(a, …)` and
    the other `ufunc.at`, `np.put / place / putmask / copyto(a, …)`, `a[…] = …`, `a += …`, `a.sort() / a.fill(…)`,
    `ufunc(…, out=a)`. Fancy indexing (`a[indexes]`) and explicit copies are fresh arrays."""
    from ..astutil import nodes_through_helpers, view_root
    params = {a.arg for a in fn.args.args}
    nodes = list(nodes_through_helpers(fn, None, depth=2, find_function=find_function))

    def is_view(e, local_views):
        if isinstance(e, ast.Name):
            return e.id in local_views
        if isinstance(e, ast.Attribute) and e.attr in ("values", "data", "_data", "magnitude", "m"):
            return is_view(e.value, local_views) or rooted(e.value)
        if isinstance(e, ast.Call) and isinstance(e.func, ast.Attribute) and e.func.attr == "to_numpy":
            if any(k.arg == "copy" and isinstance(k.value, ast.Constant) and k.value.value is True for k in e.keywords):
                return False
            return is_view(e.func.value, local_views) or rooted(e.func.value)
        if isinstance(e, ast.Call) and norm(e.func) in ("np.asarray", "numpy.asarray") and e.args:
            return is_view(e.args[0], local_views)
        if isinstance(e, ast.Subscript) and isinstance(e.slice, ast.Slice):
            return is_view(e.value, local_views)
        return False

    def rooted(e):
        """<param>.value, <param>.value[<column>], ….pint / .values of those"""
        x = e
        while True:
            if isinstance(x, ast.Subscript) and isinstance(x.slice, ast.Constant):
                x = x.value
            elif isinstance(x, ast.Attribute) and x.attr in ("pint", "values", "data", "_data"):
                x = x.value
            else:
                break
        return isinstance(x, ast.Attribute) and x.attr == "value" and isinstance(x.value, ast.Name) and x.value.id in params
    local_views = set()
    for _ in range(3):
        for n in nodes:
            if isinstance(n, ast.Assign) and len(n.targets) == 1 and isinstance(n.targets[0], ast.Name) \
                    and is_view(n.value, local_views):
                local_views.add(n.targets[0].id)
    out = []
    for n in nodes:
        tgt = what = None
        if isinstance(n, ast.Call) and isinstance(n.func, ast.Attribute):
            f = n.func
            if f.attr == "at" and isinstance(f.value, ast.Attribute) and norm(f.value.value) in ("np", "numpy") and n.args:
                tgt, what = n.args[0], f"{norm(f)}"
            elif norm(f.value) in ("np", "numpy") and f.attr in _NP_INPLACE_FIRST and n.args:
                tgt, what = n.args[0], norm(f)
            elif f.attr in ("sort", "fill", "partition", "resize", "itemset") and is_view(f.value, local_views):
                tgt, what = f.value, f".{f.attr}()"
            else:
                o = next((k.value for k in n.keywords if k.arg == "out"), None)
                if o is not None:
                    tgt, what = o, f"{norm(f)}(…, out=…)"
        elif isinstance(n, ast.Assign) and any(isinstance(t, ast.Subscript) for t in n.targets):
            t = next(t for t in n.targets if isinstance(t, ast.Subscript))
            if isinstance(t.value, ast.Name) and t.value.id in local_views:
                tgt, what = t.value, "item assignment"
        elif isinstance(n, ast.AugAssign) and isinstance(n.target, (ast.Name, ast.Subscript)):
            b = n.target.value if isinstance(n.target, ast.Subscript) else n.target
            if isinstance(b, ast.Name) and b.id in local_views:
                tgt, what = b, "augmented assignment (in place on an array)"
        if tgt is not None and is_view(tgt, local_views):
            out.append((n, what, norm(tgt)))
    return out


@rule("R-PURE")
def r_pure(E):
    pm = E.pm
    res = RuleResult("R-PURE", "no operator, comparison or helper of the explainable classes stores into an operand's "
                               "value, except the declared in-place methods (to: unit conversion; EQ.ceil, EHQ.round)")
    inplace_derived = []
    for cls in CLASSES + ("ExplainableObject",):
        path = pm.path_of(cls)
        for fn in pm.own_methods(cls):
            res.instances += 1
            st = _stores_into_value(fn)
            if st:
                inplace_derived.append(f"{cls}.{fn.name}")
            if (cls, fn.name) in VALUE_STORE_ALLOWED:
                continue
            for n, who in st:
                res.findings.append(Finding(
                    "R-PURE", f"{cls}.{fn.name} :: {norm(n)[:100]}",
                    f"{cls}.{fn.name} stores into {who}.value: the operation changes its operand", path, n.lineno,
                    f"{cls}.{fn.name}"))
            # numpy writes into an array that is a view of an operand's data
            if (cls, fn.name) not in VALUE_STORE_ALLOWED:
                for n, what, tgt in _view_mutations(fn, pm.function_finder(path)):
                    res.findings.append(Finding(
                        "R-PURE", f"{cls}.{fn.name} :: {what} into {tgt[:60]}",
                        f"{cls}.{fn.name} writes ({what}) into `{tgt[:70]}`, an array that shares its memory with the "
                        f"operand's own series: the operation changes its operand (an input of the model is altered by "
                        f"computing with it)", path, getattr(n, "lineno", fn.lineno), f"{cls}.{fn.name}"))
            # in-place helpers called on an operand inside an operator
            if fn.name.startswith("__") and fn.name not in ("__init__",):
                for n in ast.walk(fn):
                    if isinstance(n, ast.Call) and isinstance(n.func, ast.Attribute) and n.func.attr in ("ceil", "round") \
                            and isinstance(n.func.value, ast.Name) and n.func.value.id in ("self", "other"):
                        res.findings.append(Finding(
                            "R-PURE", f"{cls}.{fn.name} :: {norm(n)[:100]}",
                            f"{cls}.{fn.name} calls the in-place .{n.func.attr}() on an operand", path, n.lineno,
                            f"{cls}.{fn.name}"))
    res.breakdown = {"methods_that_store_into_self.value": sorted(inplace_derived)}
    res.samples = [{"derived_in_place_methods": sorted(inplace_derived)}]
    # `x.copy()` is summarised as an object with a buffer of its own (R-INPLACE, R-PURE and the model rules that un-share a
    # series with .copy() rely on it): the value handed to the returned object is a copy of self.value, not self.value
    from ..astutil import fully_expanded as _fx_cp, returned_expr as _rx_cp
    for cls in ("ExplainableQuantity", "ExplainableHourlyQuantities"):
        fn = next((f for f in pm.own_methods(cls) if f.name == "copy"), None) if cls in pm.classes else None
        if fn is None:
            continue
        res.instances += 1
        for r_ in [n for n in ast.walk(fn) if isinstance(n, ast.Return) and n.value is not None]:
            v_ = _fx_cp(_rx_cp(r_, fn), fn)
            # (built by a helper of the module: its returned expression, the caller's constants and its own defaults in place)
            if isinstance(v_, ast.Call) and isinstance(v_.func, ast.Name) and v_.func.id not in CTOR_PARAMS:
                from ..astutil import straightline_value as _slv_cp, fold_constant_tests as _fct_cp
                hv_ = _slv_cp(v_, None, pm.any_helper_finder(pm.path_of(cls)))
                if hv_ is not None:
                    wrap_ = ast.Module(body=[ast.Expr(value=hv_)], type_ignores=[])
                    _fct_cp(wrap_)
                    v_ = wrap_.body[0].value if wrap_.body and isinstance(wrap_.body[0], ast.Expr) else hv_
            if isinstance(v_, ast.Call):
                a0 = v_.args[0] if v_.args else next((k.value for k in v_.keywords if k.arg == "value"), None)
                if a0 is not None and norm(_fx_cp(a0, fn)) == "self.value":
                    res.findings.append(Finding(
                        "R-PURE", f"{cls}.copy shares the value",
                        f"{cls}.copy() builds the duplicate on `self.value` itself: the copy and the original hold the same "
                        f"{'frame' if cls.endswith('Quantities') else 'quantity'}, so an in-place operation on one "
                        f"(`.to(unit)`, `.round(n)` store into it) changes the other — an operand does not keep its value",
                        pm.path_of(cls), r_.lineno, f"{cls}.copy"))
    res.floor = 60
    return res


_FRAME_HELPERS = [None]      # name -> module-level FunctionDef of the function being scanned (set by r_fill)


def _is_frame(e, frames):
    """syntactic 'this expression is an hourly frame' (X.value of an explainable, shift/add/mul/copy of a frame, or the
    result of a same-module helper that returns one)"""
    if isinstance(e, ast.Name):
        return e.id in frames
    if isinstance(e, ast.Call) and isinstance(e.func, ast.Name) and _FRAME_HELPERS[0] is not None:
        h = _FRAME_HELPERS[0](e.func.id)
        if h is not None:
            from ..astutil import helper_view
            v = helper_view(h, e)
            return any(isinstance(r, ast.Return) and r.value is not None and _is_frame(r.value, frames)
                       for r in ast.walk(v))
    if isinstance(e, ast.Attribute) and e.attr == "value" and isinstance(e.value, ast.Name):
        return True
    if isinstance(e, ast.Call) and isinstance(e.func, ast.Attribute) and e.func.attr in (
            "shift", "add", "mul", "copy", "cumsum"):
        return _is_frame(e.func.value, frames)
    if isinstance(e, ast.UnaryOp):
        return _is_frame(e.operand, frames)
    if isinstance(e, ast.BinOp) and isinstance(e.op, ast.Mult):
        # frame * scalar stays a frame
        return _is_frame(e.left, frames) or _is_frame(e.right, frames)
    return False


FILL_SCOPE = [(EO, "ExplainableHourlyQuantities.__add__"), (EO, "ExplainableHourlyQuantities.__mul__"),
              ("core/usage/compute_nb_occurrences_in_parallel.py", "compute_nb_avg_hourly_occurrences")]


@rule("R-FILL")
def r_fill(E):
    pm = E.pm
    res = RuleResult("R-FILL", "every element-wise + or * between two hourly frames is the method form with fill_value "
                               "(missing hours count as zero); a bare df1 + df2 / df1 * df2 yields NaN outside the "
                               "common index")
    from ..astutil import nodes_through_helpers
    for suffix, q in FILL_SCOPE:
        rel, fn = pm.find_function(suffix, q)
        # same-module helper functions are read at their call sites, in the caller's terms
        finder = pm.function_finder(rel) if "." not in q else None
        _FRAME_HELPERS[0] = finder
        nodes = nodes_through_helpers(fn, find_function=finder, depth=2) if finder else list(ast.walk(fn))
        frames = set()
        lists_of_frames = set()
        for _ in range(3):
            for n in nodes:
                if isinstance(n, ast.Assign) and len(n.targets) == 1 and isinstance(n.targets[0], ast.Name) \
                        and _is_frame(n.value, frames):
                    frames.add(n.targets[0].id)
                # a list of frames, and the parameters of a folding lambda over it: reduce(lambda a, b: a.add(b, …), frames)
                if isinstance(n, ast.Assign) and len(n.targets) == 1 and isinstance(n.targets[0], ast.Name) \
                        and isinstance(n.value, (ast.ListComp, ast.GeneratorExp, ast.List)):
                    elts = [n.value.elt] if isinstance(n.value, (ast.ListComp, ast.GeneratorExp)) else n.value.elts
                    if elts and all(_is_frame(e, frames) for e in elts):
                        lists_of_frames.add(n.targets[0].id)
                if isinstance(n, ast.Call) and norm(n.func) in ("reduce", "functools.reduce") and len(n.args) >= 2 \
                        and isinstance(n.args[0], ast.Lambda):
                    xs = n.args[1]
                    over_frames = (isinstance(xs, ast.Name) and xs.id in lists_of_frames) or (
                        isinstance(xs, (ast.ListComp, ast.GeneratorExp)) and _is_frame(xs.elt, frames))
                    if over_frames:
                        frames |= {a.arg for a in n.args[0].args.args}
        for n in nodes:
            if isinstance(n, ast.Call) and isinstance(n.func, ast.Attribute) and n.func.attr in ("add", "mul") \
                    and _is_frame(n.func.value, frames):
                res.instances += 1
                if not any(k.arg == "fill_value" for k in n.keywords):
                    res.findings.append(Finding(
                        "R-FILL", f"{q} :: {norm(n)[:100]}",
                        f"{q}: .{n.func.attr}() between hourly frames without fill_value: hours present on one side "
                        f"only become NaN", rel, n.lineno, q))
                elif len(res.samples) < 5:
                    res.samples.append({"function": q, "site": norm(n)[:80], "verdict": "fill_value given"})
            if isinstance(n, ast.BinOp) and isinstance(n.op, (ast.Add, ast.Mult)):
                lf, rf = _is_frame(n.left, frames), _is_frame(n.right, frames)
                both_value = isinstance(n.op, ast.Mult) and not (
                    isinstance(n.left, ast.Attribute) and isinstance(n.right, ast.Attribute))
                if lf and rf and not (isinstance(n.op, ast.Mult) and both_value and not (
                        _pure_frame(n.left, frames) and _pure_frame(n.right, frames))):
                    res.instances += 1
                    res.findings.append(Finding(
                        "R-FILL", f"{q} :: {norm(n)[:100]}",
                        f"{q}: bare `{norm(n)[:60]}` between two hourly frames aligns on the index and yields NaN "
                        f"where only one side has a value", rel, n.lineno, q))
    _FRAME_HELPERS[0] = None
    res.floor = 2     # the two operators; the occupancy function's sites when the frames are recognisable (4 on the pinned tree)
    return res


def _pure_frame(e, frames):
    if isinstance(e, ast.Name):
        return e.id in frames
    if isinstance(e, ast.Attribute) and e.attr == "value":
        return True
    if isinstance(e, ast.Call) and isinstance(e.func, ast.Attribute) and e.func.attr in ("shift", "add", "mul", "copy"):
        return _pure_frame(e.func.value, frames)
    return False


@rule("R-SHIFT")
def r_shift(E):
    pm = E.pm
    res = RuleResult("R-SHIFT", "every .shift( on an hourly frame passes freq= (index shift: values keep their place on a "
                                "longer time line); a positional shift drops what leaves the frame")
    for mod, (rel, tree, src) in sorted(pm.modules.items()):
        for n in ast.walk(tree):
            if isinstance(n, ast.Call) and isinstance(n.func, ast.Attribute) and n.func.attr == "shift":
                res.instances += 1
                fn = n
                while fn is not None and not isinstance(fn, ast.FunctionDef):
                    fn = getattr(fn, "_parent", None)
                q = fn.name if fn is not None else "<module>"
                if not any(k.arg == "freq" for k in n.keywords):
                    res.findings.append(Finding(
                        "R-SHIFT", f"{rel}:{q} :: {norm(n)[:100]}",
                        f"{q}: positional .shift() without freq=: values shifted past the end of the frame are lost",
                        rel, n.lineno, q))
                elif len(res.samples) < 4:
                    res.samples.append({"file": rel, "function": q, "site": norm(n)[:80], "verdict": "index shift"})
    # the shift operation of hourly values moves the *labels* of the frame it is given (gaps and all): its result is
    # `self.value.shift(n, freq=…)`, not values re-attached to a freshly generated contiguous range
    rel, fn = pm.find_function(EO, "ExplainableHourlyQuantities.return_shifted_hourly_quantities")
    res.instances += 1
    from ..astutil import fully_expanded
    ok = False
    for r in [x for x in ast.walk(fn) if isinstance(x, ast.Return) and x.value is not None]:
        v = fully_expanded(r.value, fn)
        first = v.args[0] if isinstance(v, ast.Call) and v.args else next(
            (k.value for k in getattr(v, "keywords", []) if k.arg == "value"), None)
        if isinstance(first, ast.Call) and isinstance(first.func, ast.Attribute) and first.func.attr == "shift" \
                and norm(first.func.value) in ("self.value", "self.value.copy()") \
                and any(k.arg == "freq" for k in first.keywords):
            ok = True
    if not ok:
        regen = any(isinstance(c, ast.Call) and norm(c.func).endswith("date_range") for c in ast.walk(fn))
        res.findings.append(Finding(
            "R-SHIFT", "return_shifted_hourly_quantities is an index shift",
            "return_shifted_hourly_quantities no longer returns `self.value.shift(n, freq=…)`" +
            (": it re-attaches the values to a regenerated contiguous hourly range, so in a series with a gap (a sum of "
             "series over disjoint periods, a UTC conversion across the end of daylight saving) every value after the gap "
             "lands on the wrong hour" if regen else ": values may no longer keep their own timestamps"),
            rel, fn.lineno, fn.name))
    res.floor = 3     # one per function that shifts: occurrences averaging, storage dumps, return_shifted_… (6 sites today)
    return res


@rule("R-RAW2")
def r_raw2(E):
    pm = E.pm
    res = RuleResult("R-RAW2", "an operation combining raw arrays taken from two series (np.maximum / np.minimum) "
                               "requires both operands aligned on one index and expressed in one unit")
    from .units import MagnitudeFlow, default_sink_of, module_dict_tables, module_record_classes
    from ..astutil import callee_texts
    for mod, (rel, tree, src) in sorted(pm.modules.items()):
        tables = module_dict_tables(tree)
        recs = module_record_classes(tree)
        with_sinks = {f.name for f in ast.walk(tree) if isinstance(f, ast.FunctionDef)
                      and any(default_sink_of(n) is not None for n in ast.walk(f))}
        if not with_sinks:
            continue
        for fn in [f for f in ast.walk(tree) if isinstance(f, ast.FunctionDef)]:
            # functions that take bare numbers out of a series themselves, or call a method of their class that does
            # (an alignment helper that hands the arrays back is evaluated in place, in its callers)
            if fn.name not in with_sinks and not any(
                    isinstance(n, ast.Call) and isinstance(n.func, ast.Attribute) and norm(n.func.value) == "self"
                    and n.func.attr in with_sinks for n in ast.walk(fn)):
                continue
            cls = getattr(fn, "_parent", None)
            mf = MagnitudeFlow(fn, default_sink_of, tables,
                               pm.helper_finder(cls.name) if isinstance(cls, ast.ClassDef) else None, recs)
            q = fn.name
            seen_calls = {id(getattr(n, "_origin", n)) for n, _ in mf.elementwise} | {id(n) for n, _ in mf.elementwise}
            bad_idx = {id(n): ix for n, ix in mf.misaligned}
            bad_unit = {id(n): us for n, us in mf.mixed_units}
            for node, parts in mf.elementwise:
                res.instances += 1
                what = norm(node.func) if isinstance(node, ast.Call) else type(getattr(node, "op", None)).__name__
                key = f"{rel}:{q} :: {norm(node)[:60]}"
                if id(node) in bad_idx:
                    res.findings.append(Finding(
                        "R-RAW2", key + " unaligned",
                        f"{q}: {what} combines the raw arrays of two series by position, but they are not on one index "
                        f"({' / '.join(map(str, bad_idx[id(node)]))[:120]}; only `<index>.equals(<index>)` establishes that two "
                        f"indexes are the same hours): series over different time windows are paired hour i with hour i, "
                        f"or numpy raises on unequal lengths", rel, node.lineno, q))
                elif id(node) in bad_unit:
                    res.findings.append(Finding(
                        "R-RAW2", key + " unit",
                        f"{q}: {what} compares bare magnitudes of two series that are not expressed in one unit "
                        f"({' / '.join(map(str, bad_unit[id(node)]))}): the second is not converted to the unit of the first",
                        rel, node.lineno, q))
                elif len(res.samples) < 4:
                    res.samples.append({"function": q, "operation": norm(node)[:80], "verdict": "aligned, one unit"})
            for node in mf.untraced:
                res.instances += 1
                res.undecided.append(f"{q}: an operand of `{norm(node)[:60]}` is not traced back to a series")
            # an element-wise max / min that the flow did not meet at all
            for call in ast.walk(fn):
                if isinstance(call, ast.Call) and len(call.args) == 2 and id(call) not in seen_calls \
                        and call not in mf.untraced and id(call) not in {id(getattr(u_, "_origin", u_)) for u_ in mf.untraced}:
                    cts = callee_texts(call, fn)
                    if cts and cts <= {"np.maximum", "np.minimum"}:
                        res.instances += 1
                        res.undecided.append(f"{q}: the operands of `{norm(call)[:60]}` are not traced back to two series")
    # positional arithmetic between the raw arrays of two different series (x.value[...].values + y.value[...].values)
    def array_root(e):
        """name of the explainable whose frame's raw array this expression is, or None"""
        seen_view = False
        while True:
            if isinstance(e, ast.Attribute) and e.attr in ("values", "data", "_data", "magnitude"):
                seen_view = True
                e = e.value
            elif isinstance(e, ast.Call) and isinstance(e.func, ast.Attribute) and e.func.attr == "to_numpy":
                seen_view = True
                e = e.func.value
            elif isinstance(e, ast.Subscript):
                e = e.value
            elif isinstance(e, ast.Attribute) and e.attr in ("pint",):
                e = e.value
            elif isinstance(e, ast.Attribute) and e.attr == "value" and isinstance(e.value, ast.Name):
                return e.value.id if seen_view else None
            else:
                return None
    for suffix in (EO, "core/usage/compute_nb_occurrences_in_parallel.py"):
        rel, tree = pm.module_tree(suffix)
        for n in ast.walk(tree):
            if isinstance(n, ast.BinOp) and isinstance(n.op, (ast.Add, ast.Sub, ast.Mult, ast.Div)):
                a, b = array_root(n.left), array_root(n.right)
                if a and b and a != b:
                    res.instances += 1
                    fn = n
                    while fn is not None and not isinstance(fn, ast.FunctionDef):
                        fn = getattr(fn, "_parent", None)
                    q = fn.name if fn is not None else "<module>"
                    res.findings.append(Finding(
                        "R-RAW2", f"{rel}:{q} :: {norm(n)[:90]} positional",
                        f"{q}: `{norm(n)[:70]}` combines the raw arrays of two series ({a}, {b}) element by position: "
                        f"series that do not cover exactly the same hours (a gap, a daylight-saving change, another time "
                        f"window of equal length) are paired hour i with hour i", rel, n.lineno, q))
    res.floor = 1     # the element-wise max / min of np_compared_with (two calls today, one if the callee is chosen first)
    return res


@rule("R-SUMMARY")
def r_summary(E):
    """the frozen operator summaries of the interpreter agree with what the source says (DESIGN §4.6)"""
    pm = E.pm
    res = RuleResult("R-SUMMARY", "the interpreter's frozen summaries of the explainable methods (which operands become "
                                  "parents, returns self or a new object, stores into self.value) agree with the source")
    for name, s in sorted(E_METHODS.items()):
        for cls in CLASSES + ("ExplainableObject",):
            fn = next((f for f in pm.own_methods(cls) if f.name == name), None)
            if fn is None:
                continue
            res.instances += 1
            path = pm.path_of(cls)
            where = f"{cls}.{name}"
            if (cls, name) in OPPAR_EXCEPTIONS:
                continue
            stores = bool(_stores_into_value(fn))
            rets = [n for n in ast.walk(fn) if isinstance(n, ast.Return) and n.value is not None]
            from ..astutil import returned_expr as _rx
            ret_self = [n for n in rets if isinstance(_rx(n, fn), ast.Name) and _rx(n, fn).id == "self"]
            if cls == "EmptyExplainableObject" and name in ("to",):
                continue
            want_inplace = s["inplace"] is not None and not (s["inplace"] == "value-EQ" and cls != "ExplainableQuantity")
            if cls == "EmptyExplainableObject":
                want_inplace = False
            if stores != want_inplace:
                res.findings.append(Finding(
                    "R-SUMMARY", f"{where} in-place={stores}",
                    f"{where} {'stores' if stores else 'does not store'} into self.value but the analyser's summary "
                    f"says in-place={s['inplace']}: rules R-INPLACE / R-PROV would be misled", path, fn.lineno, where))
            if s["returns_self"] and cls != "EmptyExplainableObject" and len(ret_self) != len(rets):
                res.findings.append(Finding("R-SUMMARY", f"{where} returns-self",
                                            f"{where} no longer returns self on every path", path, fn.lineno, where))
            if not s["returns_self"] and ret_self and s["inplace"] is None:
                res.findings.append(Finding(
                    "R-SUMMARY", f"{where} returns self",
                    f"{where} has a return path that hands back `self` where a new object is expected: a rule that assigns "
                    f"`x.{name}()` to its attribute then installs the very object another attribute holds — it is "
                    f"re-labelled and re-attached under the new name, drops out of the first attribute's place in the "
                    f"dependency graph and is never recomputed there", path, ret_self[0].lineno, where))
            if want_inplace and stores:
                # every return path passes through the store: no early `return self` that skips the conversion
                st_nodes = [n for n, who in _stores_into_value(fn)]
                first_store = min(n.lineno for n in st_nodes)
                nested_store = any(isinstance(getattr(n, "_parent", None), (ast.If, ast.For, ast.While, ast.Try))
                                   for n in st_nodes)
                early = [r for r in rets if r.lineno < first_store]
                if early or nested_store:
                    res.findings.append(Finding(
                        "R-SUMMARY", f"{where} conditional in-place update",
                        f"{where} is summarised as an unconditional in-place {'unit conversion' if s['inplace'] == 'unit' else 'update'} "
                        f"but has a path that returns without performing it"
                        f"{' (`' + norm(early[0].parent if False else early[0])[:40] + '` before the store)' if early else ''}: "
                        f"callers that rely on the result being in the requested unit (`.to(u.dimensionless)` before "
                        f"ceil / magnitude) read a value in another unit", path, fn.lineno, where))
            if "args" in s["parents"]:
                # every return path must record the explainable argument: a constructor (checked by R-OPPAR) or a
                # delegation that hands self over to the argument's own method
                eparams = [a.arg for a in fn.args.args[1:] if a.arg in E_PARAM_NAMES]
                from ..astutil import returned_expr
                for r in rets:
                    v = returned_expr(r, fn)
                    is_ctor = isinstance(v, ast.Call) and (
                        (isinstance(v.func, ast.Name) and v.func.id in CTOR_PARAMS) or norm(v.func) == "self.__class__")
                    is_deleg = isinstance(v, ast.Call) and isinstance(v.func, ast.Attribute) and \
                        isinstance(v.func.value, ast.Name) and v.func.value.id in eparams and \
                        any(norm(a) == "self" for a in v.args)
                    if is_ctor and eparams:
                        recorded = set()
                        names = CTOR_PARAMS.get(v.func.id if isinstance(v.func, ast.Name) else "ExplainableObject")
                        for i, a in enumerate(v.args):
                            if i < len(names) and names[i] in ("left_parent", "right_parent"):
                                recorded |= {x.id for x in ast.walk(a) if isinstance(x, ast.Name)}
                        for kwd in v.keywords:
                            if kwd.arg in ("left_parent", "right_parent"):
                                recorded |= {x.id for x in ast.walk(kwd.value) if isinstance(x, ast.Name)}
                        # a local alias of the parameter (right_parent = compared_object) counts
                        for a in ast.walk(fn):
                            if isinstance(a, ast.Assign) and isinstance(a.targets[0], ast.Name) and a.targets[0].id in recorded \
                                    and isinstance(a.value, ast.Name):
                                recorded.add(a.value.id)
                        miss = [p_ for p_ in eparams if p_ not in recorded]
                        if miss:
                            res.findings.append(Finding(
                                "R-SUMMARY", f"{where} path without the argument :: {norm(r)[:60]}",
                                f"{where} has a return path (`{norm(r)[:70]}`) that does not record its explainable "
                                f"argument {miss} as parent although which path runs depends on it: results obtained "
                                f"through that path do not list it among their ancestors, so an edit of it is not "
                                f"propagated (the analyser's summary, and R-PROV with it, assume it always is)", path,
                                r.lineno, where))
                        continue
                    if is_ctor or is_deleg or not eparams:
                        continue
                    res.findings.append(Finding(
                        "R-SUMMARY", f"{where} path without the argument :: {norm(r)[:60]}",
                        f"{where} has a return path (`{norm(r)[:60]}`) that does not record its explainable argument "
                        f"{eparams} as parent: values computed through that path do not list it among their ancestors, so "
                        f"an edit of it is not propagated (the analyser's summary, and R-PROV with it, assume it is)",
                        path, r.lineno, where))
    res.floor = 25
    return res


DERIVED_ACCESSORS = {("ExplainableHourlyQuantities", "unit"), ("ExplainableQuantity", "magnitude"),
                     ("ExplainableHourlyQuantities", "value_as_float_list")}


@rule("R-DERIVED")
def r_derived(E):
    pm = E.pm
    res = RuleResult("R-DERIVED", "derived accessors of the explainable classes (unit, magnitude) are computed from "
                                  "self.value on every call: `to()` converts the value in place and several objects can "
                                  "share one frame, so a cached copy goes stale")
    for cls in CLASSES + ("ExplainableObject",):
        path = pm.path_of(cls)
        for fn in pm.own_methods(cls):
            if (cls, fn.name) not in DERIVED_ACCESSORS:
                continue
            res.instances += 1
            reads = {n.attr for n in ast.walk(fn) if isinstance(n, ast.Attribute) and isinstance(n.value, ast.Name)
                     and n.value.id == "self"}
            reads |= {(norm(c.args[1]).strip("'\"") if len(c.args) > 1 else "?") for c in ast.walk(fn)
                      if isinstance(c, ast.Call) and norm(c.func) == "getattr" and c.args and norm(c.args[0]) == "self"}
            if reads != {"value"}:
                res.findings.append(Finding(
                    "R-DERIVED", f"{cls}.{fn.name} reads {sorted(reads - {'value'})}",
                    f"{cls}.{fn.name} is computed from {sorted(reads)} instead of self.value alone: after an in-place "
                    f"`.to()` on an object sharing the frame (x + empty, sum([x]), a logical-dependency copy) it returns "
                    f"the old unit and negate/abs/ceil/round/np_compared_with label converted magnitudes with it", path,
                    fn.lineno, f"{cls}.{fn.name}"))
        # no cached copy of it written anywhere in the class
        for fn in pm.own_methods(cls):
            for n in ast.walk(fn):
                if isinstance(n, ast.Assign):
                    for t in n.targets:
                        if isinstance(t, ast.Attribute) and isinstance(t.value, ast.Name) and t.value.id == "self" \
                                and t.attr in ("_unit", "_magnitude", "_units"):
                            res.instances += 1
                            res.findings.append(Finding("R-DERIVED", f"{cls}.{fn.name} caches {t.attr}",
                                                        f"{cls}.{fn.name} stores self.{t.attr}: a cached unit goes stale "
                                                        f"when a frame-sharing object is converted in place", path,
                                                        n.lineno, f"{cls}.{fn.name}"))
    res.floor = 2
    return res
