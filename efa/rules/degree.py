"""placeholder"""
