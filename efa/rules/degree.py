"""R-DEG: homogeneity degree of each footprint formula in each documented driver (DESIGN §4.4, §5.B)."""
from . import rule
from ..frontend import AnalysisError
from ..interp import Interp, d_add, TOP
from ..report import Finding, RuleResult

# Oracle transcribed from the statements of C12 (and C17's two formulas, C02's last clause, C03's linearity clause).
# (driver attribute, classes declaring it, [(target class, target attribute, expected degree | "indep")])
ORACLE = [
    ("power_usage_effectiveness", ["ServerBase"], [
        ("Server", "instances_energy", 1), ("GPUServer", "instances_energy", 1),
        ("BoaviztaCloudServer", "instances_energy", 1), ("Storage", "instances_energy", 1),
        ("Server", "energy_footprint", 1), ("Storage", "energy_footprint", 1),
        ("Server", "instances_fabrication_footprint", "indep"), ("Network", "energy_footprint", "indep"),
        ("UsagePattern", "energy_footprint", "indep"), ("Storage", "instances_fabrication_footprint", "indep")]),
    ("average_carbon_intensity", ["ServerBase"], [
        ("Server", "energy_footprint", 1), ("GPUServer", "energy_footprint", 1), ("Storage", "energy_footprint", 1),
        ("BoaviztaCloudServer", "energy_footprint", 1), ("Server", "instances_energy", "indep"),
        ("Network", "energy_footprint", "indep"), ("UsagePattern", "devices_energy_footprint", "indep")]),
    ("bandwidth_energy_intensity", ["Network"], [
        ("Network", "energy_footprint", 1), ("Server", "energy_footprint", "indep"),
        ("UsagePattern", "energy_footprint", "indep")]),
    ("hourly_data_transferred_per_usage_pattern", ["JobBase"], [
        ("Network", "energy_footprint", 1), ("Server", "energy_footprint", "indep")]),
    ("data_transferred", ["Job"], [
        ("Job", "hourly_data_transferred_per_usage_pattern", 1),
        ("Job", "hourly_data_transferred_across_usage_patterns", 1),
        ("Server", "energy_footprint", "indep"), ("Storage", "energy_footprint", "indep")]),
    ("average_carbon_intensity", ["Country"], [
        ("Network", "energy_footprint", 1), ("UsagePattern", "devices_energy_footprint", 1),
        ("UsagePattern", "energy_footprint", 1), ("Server", "energy_footprint", "indep"),
        ("UsagePattern", "devices_fabrication_footprint", "indep")]),
    ("power", ["Device"], [
        ("UsagePattern", "devices_energy", 1), ("UsagePattern", "energy_footprint", 1),
        ("UsagePattern", "instances_fabrication_footprint", "indep")]),
    ("carbon_footprint_fabrication", ["Device"], [
        ("UsagePattern", "devices_fabrication_footprint", 1), ("UsagePattern", "instances_fabrication_footprint", 1),
        ("UsagePattern", "energy_footprint", "indep")]),
    ("lifespan", ["Device"], [("UsagePattern", "devices_fabrication_footprint", -1),
                              ("UsagePattern", "devices_energy", "indep")]),
    ("fraction_of_usage_time", ["Device"], [("UsagePattern", "devices_fabrication_footprint", -1),
                                            ("UsagePattern", "devices_energy", "indep")]),
    ("carbon_footprint_fabrication", ["Server"], [
        ("Server", "instances_fabrication_footprint", 1), ("Server", "energy_footprint", "indep")]),
    ("lifespan", ["InfraHardware"], [
        ("Server", "instances_fabrication_footprint", -1), ("Storage", "instances_fabrication_footprint", -1),
        ("GPUServer", "instances_fabrication_footprint", -1), ("BoaviztaCloudServer", "instances_fabrication_footprint", -1),
        ("Server", "energy_footprint", "indep")]),
    ("carbon_footprint_fabrication_per_storage_capacity", ["Storage"], [
        ("Storage", "instances_fabrication_footprint", 1), ("Storage", "energy_footprint", "indep")]),
    ("hourly_usage_journey_starts", ["UsagePattern"], [
        ("UsagePattern", "utc_hourly_usage_journey_starts", 1),
        ("Job", "hourly_occurrences_across_usage_patterns", 1), ("Job", "hourly_avg_occurrences_across_usage_patterns", 1),
        ("Job", "hourly_data_transferred_across_usage_patterns", 1), ("Job", "hourly_data_stored_across_usage_patterns", 1),
        ("GenAIJob", "hourly_avg_occurrences_across_usage_patterns", 1),
        ("VideoStreamingJob", "hourly_data_transferred_across_usage_patterns", 1),
        ("Network", "energy_footprint", 1), ("UsagePattern", "nb_usage_journeys_in_parallel", 1),
        ("UsagePattern", "devices_energy", 1), ("UsagePattern", "devices_fabrication_footprint", 1),
        ("UsagePattern", "energy_footprint", 1),
        ("Server", "hour_by_hour_ram_need", 1), ("Server", "hour_by_hour_compute_need", 1),
        ("Server", "raw_nb_of_instances", 1), ("GPUServer", "raw_nb_of_instances", 1)]),
    ("bits_per_pixel", ["VideoStreaming"], [
        ("VideoStreamingJob", "dynamic_bitrate", 1), ("VideoStreamingJob", "data_transferred", 1)]),
    ("refresh_rate", ["VideoStreamingJob"], [
        ("VideoStreamingJob", "dynamic_bitrate", 1), ("VideoStreamingJob", "data_transferred", 1)]),
    ("video_duration", ["VideoStreamingJob"], [
        ("VideoStreamingJob", "data_transferred", 1), ("VideoStreamingJob", "request_duration", 1),
        ("VideoStreamingJob", "dynamic_bitrate", "indep")]),
    ("dynamic_bitrate", ["VideoStreamingJob"], [("VideoStreamingJob", "data_transferred", 1),
                                                ("VideoStreamingJob", "compute_needed", 1)]),
    ("instances_energy", ["InfraHardware"], [
        ("Server", "energy_footprint", 1), ("Storage", "energy_footprint", 1), ("GPUServer", "energy_footprint", 1)]),
    ("devices_energy", ["UsagePattern"], [("UsagePattern", "devices_energy_footprint", 1)]),
    ("data_replication_factor", ["Storage"], [("Storage", "carbon_footprint_fabrication", "indep")]),
    ("nb_of_instances", ["InfraHardware"], [
        ("Server", "instances_fabrication_footprint", 1), ("Storage", "instances_fabrication_footprint", 1)]),
]


class Degrees:
    """degree of every calculated attribute in one driver, computed lazily by interpreting only the cone it needs"""

    def __init__(self, E, dattr, dclasses):
        self.E, self.pm = E, E.pm
        self.dattr = dattr
        self.dclasses = set()
        for c in dclasses:
            self.dclasses |= {c} | set(self.pm.subclasses(c))
        self.memo = {}
        self.unknown = []
        self.I = Interp(self.pm)
        self.I.kind_hook = E.kind_of
        self.I.deg_hook = self.hook

    def hook(self, cn, attr):
        if attr == self.dattr and cn in self.dclasses:
            return {"*": 1}
        if self.E.is_calc(cn, attr):
            return self.deg_of(cn, attr)
        return {}

    def deg_of(self, c, x):
        if (c, x) in self.memo:
            return self.memo[(c, x)]
        self.memo[(c, x)] = {"*": TOP}      # cycle guard
        cx = self.I.run_rule(c, x)
        self.unknown += [f"{c}.update_{x}: {u}" for u in cx.unknown]
        d = None
        first = True
        for w in cx.writes.get(x, []):
            v = w.value
            wd = v.deg if v is not None and v.k in ("E", "raw") else None
            d = wd if first else d_add(d, wd)
            first = False
        self.memo[(c, x)] = d
        return d


def scalar(d):
    if d is None:
        return "bottom"
    return d.get("*", 0)


@rule("R-DEG")
def r_deg(E):
    pm = E.pm
    res = RuleResult("R-DEG", "each footprint formula is homogeneous of the documented degree in each documented driver "
                              "(over exact arithmetic), and does not read the drivers documented as not affecting it")
    for dattr, dcls, rows in ORACLE:
        D = Degrees(E, dattr, dcls)
        dpairs = {(c, dattr) for k in dcls for c in [k] + pm.subclasses(k)}
        for (c, x, exp) in rows:
            res.instances += 1
            if not E.is_calc(c, x):
                res.undecided.append(f"oracle row {c}.{x}: not a calculated attribute any more")
                continue
            owner, fn = pm.find_method(c, "update_" + x)
            drv = f"{'/'.join(dcls)}.{dattr}"
            if exp == "indep":
                hit = dpairs & E.read_star(c, x)
                if hit:
                    res.findings.append(Finding(
                        "R-DEG", f"{c}.{x} independent of {drv}",
                        f"{c}.{x} must not respond to {drv} but its rule (transitively) reads {sorted(hit)[0][0]}."
                        f"{dattr}", pm.path_of(owner), fn.lineno, f"{owner}.update_{x}"))
                elif len(res.samples) < 10 and len(res.samples) % 2:
                    res.samples.append({"driver": drv, "target": f"{c}.{x}", "expected": "independent",
                                        "verdict": "driver not in the transitive read set"})
                continue
            n_unknown = len(D.unknown)
            got = scalar(D.deg_of(c, x))
            if got != exp and (D.unknown and True):
                # the cone of this row contains a construct the interpreter could not follow: the derived degree means
                # nothing — undecided (reported below), never a finding
                continue
            if got != exp:
                res.findings.append(Finding(
                    "R-DEG", f"deg[{drv}]({c}.{x}) expected {exp}",
                    f"multiplying {drv} by k must multiply {c}.{x} by k^{exp}, but the formula has degree "
                    f"{'undefined (not homogeneous)' if got == TOP else got} in it", pm.path_of(owner), fn.lineno,
                    f"{owner}.update_{x}", {"got": str(got)}))
            elif len(res.samples) < 10:
                res.samples.append({"driver": drv, "target": f"{c}.{x}", "expected_degree": exp, "derived_degree": got})
        res.undecided += sorted(set(D.unknown))
    res.floor = 80
    return res
