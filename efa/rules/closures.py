"""R-LATEBIND: a function object created inside a loop that reads a variable the loop rebinds, and that outlives the
iteration that created it (it is stored, appended, returned), sees the *last* value of that variable when it is finally
called — Python closures capture variables, not values. Expected count on the pinned tree: zero, so the matcher proves on
every run that it still recognises an embedded positive example (and stays silent on its repaired twins)."""
import ast
import symtable

from . import rule
from ..frontend import AnalysisError, norm
from ..report import Finding, RuleResult
from ..astutil import set_parents

AREAS = [("abstract_modeling_classes/modeling_update.py", ["update"]), ("abstract_modeling_classes/modeling_object.py", ["update"]),
         ("abstract_modeling_classes/explainable", ["explainable"]), ("abstract_modeling_classes/", ["update", "links"]),
         ("builders/time_builders.py", ["time"]), ("constants/countries.py", ["tz", "json", "model"]),
         ("api_utils/", ["json"]), ("constants/", ["json", "model"]), ("core/", ["model"]), ("builders/", ["model"]),
         ("utils/", ["display"])]

_POSITIVE = '''
RULES = {}
for op in ["/", "*"]:
    RULES[op] = lambda a, right: a != "*" or (right and op == "/")
def checks(changes):
    out = []
    for obj, name, value in changes:
        out.append(lambda: obj.validate(name, value))
    return out
'''
_NEGATIVE = '''
RULES = {}
for op in ["/", "*"]:
    RULES[op] = lambda a, right, op=op: a != "*" or (right and op == "/")
def total(xs, ks):
    out = []
    for k in ks:
        out.append(sorted(xs, key=lambda x: x[k]))
        out.append(sum(map(lambda x: x * k, xs)))
    return out
def make(k):
    return lambda x: x * k
def table(ks):
    return [make(k) for k in ks]
'''

# callables that consume their function argument before returning: the closure does not outlive the iteration
IMMEDIATE = {"sorted", "map", "filter", "reduce", "max", "min", "sum", "any", "all", "list", "tuple", "set", "dict",
             "accumulate", "groupby", "next", "sort", "apply", "starmap", "takewhile", "dropwhile"}


_RESOLVE = [None]


def _area(rel):
    for frag, t in AREAS:
        if frag in rel:
            return t
    return ["other"]


def _bound_names(target):
    return {x.id for x in ast.walk(target) if isinstance(x, ast.Name)}


def _loop_rebinds(loop):
    """names a loop rebinds at each iteration: its target and whatever its body assigns"""
    names = set(_bound_names(loop.target)) if isinstance(loop, (ast.For, ast.comprehension)) else set()
    body = loop.body + loop.orelse if isinstance(loop, (ast.For, ast.While)) else []
    for s in body:
        for n in ast.walk(s):
            if isinstance(n, (ast.FunctionDef, ast.Lambda, ast.ClassDef)):
                continue
            if isinstance(n, ast.Assign):
                for t in n.targets:
                    names |= {x.id for x in ast.walk(t) if isinstance(x, ast.Name) and isinstance(x.ctx, ast.Store)}
            elif isinstance(n, (ast.AugAssign, ast.AnnAssign)) and isinstance(n.target, ast.Name):
                names.add(n.target.id)
            elif isinstance(n, ast.For):
                names |= _bound_names(n.target)
            elif isinstance(n, ast.withitem) and n.optional_vars is not None:
                names |= _bound_names(n.optional_vars)
    return names


def _free_reads(f):
    """names the closure reads that it does not bind itself (parameters, defaults bound at creation, own locals)"""
    params = {a.arg for a in f.args.args + f.args.kwonlyargs + f.args.posonlyargs}
    if f.args.vararg:
        params.add(f.args.vararg.arg)
    if f.args.kwarg:
        params.add(f.args.kwarg.arg)
    body = [f.body] if isinstance(f, ast.Lambda) else f.body
    local = set(params)
    for b in body:
        for n in ast.walk(b):
            if isinstance(n, ast.Name) and isinstance(n.ctx, ast.Store):
                local.add(n.id)
            if isinstance(n, ast.comprehension):
                local |= _bound_names(n.target)
    reads = set()
    for b in body:
        for n in ast.walk(b):
            if isinstance(n, ast.Name) and isinstance(n.ctx, ast.Load) and n.id not in local:
                reads.add(n.id)
    return reads


def _escapes(f, loop):
    """does the function object outlive the iteration? False when it is called on the spot or handed to a callable that
    consumes it before returning; True when it is stored, appended, returned or yielded"""
    par = getattr(f, "_parent", None)
    if isinstance(f, ast.FunctionDef):
        # a local def: escapes if its name is stored / appended / returned inside the loop (not merely called)
        for n in ast.walk(loop):
            if isinstance(n, ast.Name) and n.id == f.name and isinstance(n.ctx, ast.Load):
                p = getattr(n, "_parent", None)
                if isinstance(p, ast.Call) and p.func is n:
                    continue
                if isinstance(p, ast.Call) and _callee(p) in IMMEDIATE:
                    continue
                return True
        return False
    node = f
    while isinstance(par, (ast.IfExp, ast.BoolOp, ast.Tuple, ast.List, ast.Dict, ast.Starred, ast.keyword)):
        if isinstance(par, (ast.Tuple, ast.List, ast.Dict)):
            pp = getattr(par, "_parent", None)
            if not (isinstance(pp, ast.Call) and _callee(pp) in IMMEDIATE):
                return True
        node, par = par, getattr(par, "_parent", None)
    if isinstance(par, ast.Call):
        if par.func is node:
            return False                                  # (lambda …)(…)
        name = _callee(par)
        if name in IMMEDIATE:
            return False
        if name in ("append", "add", "insert", "extend", "setdefault", "update", "__setitem__", "partial", "register"):
            return True
        h = _RESOLVE[0](name) if (_RESOLVE[0] is not None and isinstance(par.func, ast.Name)) else None
        if h is not None:
            # a function of the package: does it keep its parameter (captured by a nested function, stored, returned)?
            ps = [a.arg for a in h.args.args]
            pname = next((k.arg for k in par.keywords if k.value is node), None)
            if pname is None and node in par.args and par.args.index(node) < len(ps):
                pname = ps[par.args.index(node)]
            if pname:
                for u in ast.walk(h):
                    if isinstance(u, ast.Name) and u.id == pname and isinstance(u.ctx, ast.Load):
                        x, nested = getattr(u, "_parent", None), False
                        while x is not None and x is not h:
                            if isinstance(x, (ast.FunctionDef, ast.Lambda)):
                                nested = True
                            x = getattr(x, "_parent", None)
                        up = getattr(u, "_parent", None)
                        called = isinstance(up, ast.Call) and up.func is u
                        if nested or not called:
                            return True
                return False
        return None                                       # handed to an unknown callable: not judged
    if isinstance(par, (ast.Assign, ast.AugAssign, ast.AnnAssign, ast.Return, ast.Yield, ast.NamedExpr)):
        if isinstance(par, ast.Assign) and all(isinstance(t, ast.Name) for t in par.targets):
            # bound to a local name: escapes if that name does (stored, appended, returned) within the loop
            names = {t.id for t in par.targets}
            for n in ast.walk(loop):
                if isinstance(n, ast.Name) and n.id in names and isinstance(n.ctx, ast.Load):
                    p = getattr(n, "_parent", None)
                    if isinstance(p, ast.Call) and (p.func is n or _callee(p) in IMMEDIATE):
                        continue
                    return True
            return False
        return True
    if isinstance(par, (ast.ListComp, ast.SetComp, ast.GeneratorExp, ast.DictComp)):
        pp = getattr(par, "_parent", None)
        return not (isinstance(pp, ast.Call) and _callee(pp) in IMMEDIATE and not isinstance(par, ast.GeneratorExp)) \
            if not isinstance(par, ast.GeneratorExp) else True
    return None


def _callee(call):
    f = call.func
    return f.attr if isinstance(f, ast.Attribute) else (f.id if isinstance(f, ast.Name) else None)


def late_bound(tree):
    """[(closure node, loop node, names)] for closures created in a loop that read a name the loop rebinds and escape"""
    out = []
    for loop in ast.walk(tree):
        if not isinstance(loop, (ast.For, ast.While, ast.ListComp, ast.SetComp, ast.DictComp, ast.GeneratorExp)):
            continue
        if isinstance(loop, (ast.For, ast.While)):
            rebinds = _loop_rebinds(loop)
            scope_nodes = [n for s in loop.body for n in ast.walk(s)]
        else:
            rebinds = set()
            for g in loop.generators:
                rebinds |= _bound_names(g.target)
            scope_nodes = [n for part in ([loop.elt] if hasattr(loop, "elt") else [loop.key, loop.value]) for n in ast.walk(part)]
        for f in scope_nodes:
            if not isinstance(f, (ast.Lambda, ast.FunctionDef)):
                continue
            # the innermost enclosing loop is the one that matters for this closure
            x, inner = getattr(f, "_parent", None), None
            while x is not None:
                if isinstance(x, (ast.For, ast.While, ast.ListComp, ast.SetComp, ast.DictComp, ast.GeneratorExp)):
                    inner = x
                    break
                if isinstance(x, (ast.FunctionDef, ast.Lambda)):
                    break
                x = getattr(x, "_parent", None)
            if inner is not loop:
                continue
            names = _free_reads(f) & rebinds
            if not names:
                continue
            if isinstance(loop, (ast.ListComp, ast.SetComp, ast.DictComp, ast.GeneratorExp)):
                esc = f is getattr(loop, "elt", None) or f is getattr(loop, "value", None) or _escapes(f, loop)
            else:
                esc = _escapes(f, loop)
            if esc:
                out.append((f, loop, sorted(names)))
    return out


@rule("R-LATEBIND")
def r_latebind(E):
    pm = E.pm
    res = RuleResult("R-LATEBIND", "no function object created inside a loop both reads a variable that the loop rebinds and "
                                   "outlives the iteration that created it (stored in a table, appended, returned): when "
                                   "it is called later it sees the variable's last value, not the one of its iteration")
    _RESOLVE[0] = pm.package_function_finder()
    for mod, (rel, tree, src) in sorted(pm.modules.items()):
        loops = [n for n in ast.walk(tree) if isinstance(n, (ast.For, ast.While, ast.ListComp, ast.SetComp, ast.DictComp,
                                                             ast.GeneratorExp))]
        res.instances += len([f for l in loops for f in ast.walk(l) if isinstance(f, (ast.Lambda, ast.FunctionDef))]) or 0
        for f, loop, names in late_bound(tree):
            fn = f
            while fn is not None and not isinstance(fn, ast.FunctionDef) or fn is f:
                fn = getattr(fn, "_parent", None)
            q = fn.name if fn is not None else "<module>"
            res.findings.append(Finding(
                "R-LATEBIND", f"{rel}:{q} :: {norm(f)[:80]}",
                f"{q} creates `{norm(f)[:70]}` inside a loop; it reads {names}, which the loop rebinds at every iteration, "
                f"and it is kept for later (stored / appended / returned): every such function sees the value of the "
                f"*last* iteration when it is finally called", rel, f.lineno, q, {"clauses": _area(rel)}))
    _RESOLVE[0] = None
    # the matcher still recognises what it forbids, and accepts the usual repairs
    pos = late_bound(set_parents(ast.parse(_POSITIVE)))
    neg = late_bound(set_parents(ast.parse(_NEGATIVE)))
    if len(pos) != 2 or neg:
        raise AnalysisError(f"R-LATEBIND: embedded examples: {len(pos)} of 2 positive recognised, {len(neg)} false reports")
    res.instances += 2
    res.samples = [{"embedded_positive_examples_recognised": len(pos), "embedded_repaired_twins_silent": not neg}]
    res.floor = 2
    return res


# ---------------------------------------------------------------------------------------------- R-GROUPBY
_GB_POSITIVE = '''
from itertools import groupby
def split(jobs):
    return {sign: list(group) for sign, group in groupby(jobs, key=lambda job: job.data_stored.magnitude >= 0)}
'''
_GB_NEGATIVE = '''
from itertools import groupby
def split(jobs):
    by_sign = lambda job: job.data_stored.magnitude >= 0
    return {sign: list(group) for sign, group in groupby(sorted(jobs, key=by_sign), key=by_sign)}
def split2(jobs):
    return [(k, list(g)) for k, g in groupby(sorted(jobs, key=lambda j: j.name), key=lambda j: j.name)]
'''


def unsorted_groupbys(tree):
    out = []
    for c in ast.walk(tree):
        if not (isinstance(c, ast.Call) and _callee(c) == "groupby" and c.args):
            continue
        if isinstance(c.func, ast.Attribute) and norm(c.func.value) not in ("itertools",):
            continue                      # DataFrame.groupby groups all rows of a key, whatever their order
        key = next((k.value for k in c.keywords if k.arg == "key"), c.args[1] if len(c.args) > 1 else None)
        src = c.args[0]
        fn = src
        while fn is not None and not isinstance(fn, (ast.FunctionDef, ast.Module)):
            fn = getattr(fn, "_parent", None)
        # a local bound once to sorted(...)
        if isinstance(src, ast.Name) and fn is not None:
            defs = [a.value for a in ast.walk(fn) if isinstance(a, ast.Assign) and any(
                isinstance(t, ast.Name) and t.id == src.id for t in a.targets)]
            if len(defs) == 1:
                src = defs[0]
        ok = False
        if isinstance(src, ast.Call) and _callee(src) == "sorted":
            skey = next((k.value for k in src.keywords if k.arg == "key"), None)
            ok = (key is None and skey is None) or (key is not None and skey is not None and norm(key) == norm(skey))
        if not ok:
            out.append((c, key))
    return out


@rule("R-GROUPBY")
def r_groupby(E):
    pm = E.pm
    res = RuleResult("R-GROUPBY", "itertools.groupby only merges *consecutive* items with equal keys: what it is given is "
                                  "sorted by the same key; on a hash-ordered collection (the jobs of a server, the usage "
                                  "patterns of a network) the groups — and whatever is summed per group — change from one "
                                  "build of the model to the next")
    for mod, (rel, tree, src) in sorted(pm.modules.items()):
        for c in ast.walk(tree):
            if isinstance(c, ast.Call) and _callee(c) == "groupby":
                res.instances += 1
        for c, key in unsorted_groupbys(tree):
            fn = c
            while fn is not None and not isinstance(fn, ast.FunctionDef):
                fn = getattr(fn, "_parent", None)
            q = fn.name if fn is not None else "<module>"
            res.findings.append(Finding(
                "R-GROUPBY", f"{rel}:{q} :: {norm(c)[:80]}",
                f"{q} groups `{norm(c.args[0])[:50]}` with itertools.groupby without sorting it by the grouping key first: "
                f"items with the same key that are not next to each other land in separate groups (and a dict built from "
                f"the groups keeps only the last run), so which objects are counted depends on the iteration order of the "
                f"collection", rel, c.lineno, q, {"clauses": _area(rel)}))
    pos = unsorted_groupbys(set_parents(ast.parse(_GB_POSITIVE)))
    neg = unsorted_groupbys(set_parents(ast.parse(_GB_NEGATIVE)))
    if len(pos) != 1 or neg:
        raise AnalysisError(f"R-GROUPBY: embedded examples: {len(pos)} of 1 positive recognised, {len(neg)} false reports")
    res.instances += 1
    res.floor = 1
    return res


# ---------------------------------------------------------------------------------------------- R-ORDEFAULT
@rule("R-ORDEFAULT")
def r_ordefault(E):
    pm = E.pm
    res = RuleResult("R-ORDEFAULT", "in the hourly-series builders a numeric parameter is never given its default with "
                                    "`value or default`: 0 is a legal value (an offset of 0 hours, a volume of 0) and is "
                                    "falsy, so it would silently be replaced")
    from ..astutil import fully_expanded
    rel, tree = pm.module_tree("builders/time_builders.py")
    for fn in [n for n in ast.walk(tree) if isinstance(n, ast.FunctionDef)]:
        params = {a.arg: a for a in fn.args.args + fn.args.kwonlyargs}
        for b in [n for n in ast.walk(fn) if isinstance(n, ast.BoolOp) and isinstance(n.op, ast.Or)]:
            if isinstance(getattr(b, "_parent", None), (ast.If, ast.While, ast.IfExp, ast.Assert, ast.BoolOp, ast.UnaryOp)) \
                    and getattr(b._parent, "test", b) is b:
                continue                                  # a condition, not a value
            first = fully_expanded(b.values[0], fn)
            numeric = isinstance(first, ast.BinOp) and isinstance(first.op, (ast.Add, ast.Sub, ast.Mult, ast.Div, ast.Mod,
                                                                               ast.FloorDiv))
            if isinstance(first, ast.Name) and first.id in params:
                ann = norm(params[first.id].annotation) if params[first.id].annotation is not None else ""
                used_in_arith = any(isinstance(x, ast.BinOp) and any(
                    isinstance(y, ast.Name) and y.id == first.id for y in (x.left, x.right)) for x in ast.walk(fn))
                numeric = ann in ("int", "float") or used_in_arith
            res.instances += 1
            if numeric:
                res.findings.append(Finding(
                    "R-ORDEFAULT", f"{fn.name} :: {norm(b)[:80]}",
                    f"{fn.name} takes `{norm(b.values[-1])[:40]}` whenever `{norm(b.values[0])[:50]}` is falsy — including "
                    f"when it is a legal 0 (a series that starts at the hour of its minimum, a zero volume): the series is "
                    f"built with another value than the one requested", rel, b.lineno, fn.name))
    res.floor = 0
    return res
