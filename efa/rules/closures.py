"""R-LATEBIND: a function object created inside a loop that reads a variable the loop rebinds, and that outlives the
iteration that created it (it is stored, appended, returned), sees the *last* value of that variable when it is finally
called — Python closures capture variables, not values. Expected count on the pinned tree: zero, so the matcher proves on
every run that it still recognises an embedded positive example (and stays silent on its repaired twins)."""
import ast
import symtable

from . import rule
from ..frontend import AnalysisError, norm
from ..report import Finding, RuleResult
from ..astutil import set_parents

AREAS = [("abstract_modeling_classes/modeling_update.py", ["update"]), ("abstract_modeling_classes/modeling_object.py", ["update"]),
         ("abstract_modeling_classes/explainable", ["explainable"]), ("abstract_modeling_classes/", ["update", "links"]),
         ("builders/time_builders.py", ["time"]), ("constants/countries.py", ["tz", "json", "model"]),
         ("api_utils/", ["json"]), ("constants/", ["json", "model"]), ("core/", ["model"]), ("builders/", ["model"]),
         ("utils/", ["display"])]

_POSITIVE = '''
RULES = {}
for op in ["/", "*"]:
    RULES[op] = lambda a, right: a != "*" or (right and op == "/")
def checks(changes):
    out = []
    for obj, name, value in changes:
        out.append(lambda: obj.validate(name, value))
    return out
'''
_NEGATIVE = '''
RULES = {}
for op in ["/", "*"]:
    RULES[op] = lambda a, right, op=op: a != "*" or (right and op == "/")
def total(xs, ks):
    out = []
    for k in ks:
        out.append(sorted(xs, key=lambda x: x[k]))
        out.append(sum(map(lambda x: x * k, xs)))
    return out
def make(k):
    return lambda x: x * k
def table(ks):
    return [make(k) for k in ks]
'''

# callables that consume their function argument before returning: the closure does not outlive the iteration
IMMEDIATE = {"sorted", "map", "filter", "reduce", "max", "min", "sum", "any", "all", "list", "tuple", "set", "dict",
             "accumulate", "groupby", "next", "sort", "apply", "starmap", "takewhile", "dropwhile"}


_RESOLVE = [None]


def _area(rel):
    for frag, t in AREAS:
        if frag in rel:
            return t
    return ["other"]


def _bound_names(target):
    return {x.id for x in ast.walk(target) if isinstance(x, ast.Name)}


def _loop_rebinds(loop):
    """names a loop rebinds at each iteration: its target and whatever its body assigns"""
    names = set(_bound_names(loop.target)) if isinstance(loop, (ast.For, ast.comprehension)) else set()
    body = loop.body + loop.orelse if isinstance(loop, (ast.For, ast.While)) else []
    for s in body:
        for n in ast.walk(s):
            if isinstance(n, (ast.FunctionDef, ast.Lambda, ast.ClassDef)):
                continue
            if isinstance(n, ast.Assign):
                for t in n.targets:
                    names |= {x.id for x in ast.walk(t) if isinstance(x, ast.Name) and isinstance(x.ctx, ast.Store)}
            elif isinstance(n, (ast.AugAssign, ast.AnnAssign)) and isinstance(n.target, ast.Name):
                names.add(n.target.id)
            elif isinstance(n, ast.For):
                names |= _bound_names(n.target)
            elif isinstance(n, ast.withitem) and n.optional_vars is not None:
                names |= _bound_names(n.optional_vars)
    return names


def _free_reads(f):
    """names the closure reads that it does not bind itself (parameters, defaults bound at creation, own locals)"""
    params = {a.arg for a in f.args.args + f.args.kwonlyargs + f.args.posonlyargs}
    if f.args.vararg:
        params.add(f.args.vararg.arg)
    if f.args.kwarg:
        params.add(f.args.kwarg.arg)
    body = [f.body] if isinstance(f, ast.Lambda) else f.body
    local = set(params)
    for b in body:
        for n in ast.walk(b):
            if isinstance(n, ast.Name) and isinstance(n.ctx, ast.Store):
                local.add(n.id)
            if isinstance(n, ast.comprehension):
                local |= _bound_names(n.target)
    reads = set()
    for b in body:
        for n in ast.walk(b):
            if isinstance(n, ast.Name) and isinstance(n.ctx, ast.Load) and n.id not in local:
                reads.add(n.id)
    return reads


def _escapes(f, loop):
    """does the function object outlive the iteration? False when it is called on the spot or handed to a callable that
    consumes it before returning; True when it is stored, appended, returned or yielded"""
    par = getattr(f, "_parent", None)
    if isinstance(f, ast.FunctionDef):
        # a local def: escapes if its name is stored / appended / returned inside the loop (not merely called)
        for n in ast.walk(loop):
            if isinstance(n, ast.Name) and n.id == f.name and isinstance(n.ctx, ast.Load):
                p = getattr(n, "_parent", None)
                if isinstance(p, ast.Call) and p.func is n:
                    continue
                if isinstance(p, ast.Call) and _callee(p) in IMMEDIATE:
                    continue
                return True
        return False
    node = f
    while isinstance(par, (ast.IfExp, ast.BoolOp, ast.Tuple, ast.List, ast.Dict, ast.Starred, ast.keyword)):
        if isinstance(par, (ast.Tuple, ast.List, ast.Dict)):
            pp = getattr(par, "_parent", None)
            if not (isinstance(pp, ast.Call) and _callee(pp) in IMMEDIATE):
                return True
        node, par = par, getattr(par, "_parent", None)
    if isinstance(par, ast.Call):
        if par.func is node:
            return False                                  # (lambda …)(…)
        name = _callee(par)
        if name in IMMEDIATE:
            return False
        if name in ("append", "add", "insert", "extend", "setdefault", "update", "__setitem__", "partial", "register"):
            return True
        h = _RESOLVE[0](name) if (_RESOLVE[0] is not None and isinstance(par.func, ast.Name)) else None
        if h is not None:
            # a function of the package: does it keep its parameter (captured by a nested function, stored, returned)?
            ps = [a.arg for a in h.args.args]
            pname = next((k.arg for k in par.keywords if k.value is node), None)
            if pname is None and node in par.args and par.args.index(node) < len(ps):
                pname = ps[par.args.index(node)]
            if pname:
                for u in ast.walk(h):
                    if isinstance(u, ast.Name) and u.id == pname and isinstance(u.ctx, ast.Load):
                        x, nested = getattr(u, "_parent", None), False
                        while x is not None and x is not h:
                            if isinstance(x, (ast.FunctionDef, ast.Lambda)):
                                nested = True
                            x = getattr(x, "_parent", None)
                        up = getattr(u, "_parent", None)
                        called = isinstance(up, ast.Call) and up.func is u
                        if nested or not called:
                            return True
                return False
        return None                                       # handed to an unknown callable: not judged
    if isinstance(par, (ast.Assign, ast.AugAssign, ast.AnnAssign, ast.Return, ast.Yield, ast.NamedExpr)):
        if isinstance(par, ast.Assign) and all(isinstance(t, ast.Name) for t in par.targets):
            # bound to a local name: escapes if that name does (stored, appended, returned) within the loop
            names = {t.id for t in par.targets}
            for n in ast.walk(loop):
                if isinstance(n, ast.Name) and n.id in names and isinstance(n.ctx, ast.Load):
                    p = getattr(n, "_parent", None)
                    if isinstance(p, ast.Call) and (p.func is n or _callee(p) in IMMEDIATE):
                        continue
                    return True
            return False
        return True
    if isinstance(par, (ast.ListComp, ast.SetComp, ast.GeneratorExp, ast.DictComp)):
        pp = getattr(par, "_parent", None)
        return not (isinstance(pp, ast.Call) and _callee(pp) in IMMEDIATE and not isinstance(par, ast.GeneratorExp)) \
            if not isinstance(par, ast.GeneratorExp) else True
    return None


def _callee(call):
    f = call.func
    return f.attr if isinstance(f, ast.Attribute) else (f.id if isinstance(f, ast.Name) else None)


def late_bound(tree):
    """[(closure node, loop node, names)] for closures created in a loop that read a name the loop rebinds and escape"""
    out = []
    for loop in ast.walk(tree):
        if not isinstance(loop, (ast.For, ast.While, ast.ListComp, ast.SetComp, ast.DictComp, ast.GeneratorExp)):
            continue
        if isinstance(loop, (ast.For, ast.While)):
            rebinds = _loop_rebinds(loop)
            scope_nodes = [n for s in loop.body for n in ast.walk(s)]
        else:
            rebinds = set()
            for g in loop.generators:
                rebinds |= _bound_names(g.target)
            scope_nodes = [n for part in ([loop.elt] if hasattr(loop, "elt") else [loop.key, loop.value]) for n in ast.walk(part)]
        for f in scope_nodes:
            if not isinstance(f, (ast.Lambda, ast.FunctionDef)):
                continue
            # the innermost enclosing loop is the one that matters for this closure
            x, inner = getattr(f, "_parent", None), None
            while x is not None:
                if isinstance(x, (ast.For, ast.While, ast.ListComp, ast.SetComp, ast.DictComp, ast.GeneratorExp)):
                    inner = x
                    break
                if isinstance(x, (ast.FunctionDef, ast.Lambda)):
                    break
                x = getattr(x, "_parent", None)
            if inner is not loop:
                continue
            names = _free_reads(f) & rebinds
            if not names:
                continue
            if isinstance(loop, (ast.ListComp, ast.SetComp, ast.DictComp, ast.GeneratorExp)):
                esc = f is getattr(loop, "elt", None) or f is getattr(loop, "value", None) or _escapes(f, loop)
            else:
                esc = _escapes(f, loop)
            if esc:
                out.append((f, loop, sorted(names)))
    return out


@rule("R-LATEBIND")
def r_latebind(E):
    pm = E.pm
    res = RuleResult("R-LATEBIND", "no function object created inside a loop both reads a variable that the loop rebinds and "
                                   "outlives the iteration that created it (stored in a table, appended, returned): when "
                                   "it is called later it sees the variable's last value, not the one of its iteration")
    _RESOLVE[0] = pm.package_function_finder()
    for mod, (rel, tree, src) in sorted(pm.modules.items()):
        loops = [n for n in ast.walk(tree) if isinstance(n, (ast.For, ast.While, ast.ListComp, ast.SetComp, ast.DictComp,
                                                             ast.GeneratorExp))]
        res.instances += len([f for l in loops for f in ast.walk(l) if isinstance(f, (ast.Lambda, ast.FunctionDef))]) or 0
        for f, loop, names in late_bound(tree):
            fn = f
            while fn is not None and not isinstance(fn, ast.FunctionDef) or fn is f:
                fn = getattr(fn, "_parent", None)
            q = fn.name if fn is not None else "<module>"
            res.findings.append(Finding(
                "R-LATEBIND", f"{rel}:{q} :: {norm(f)[:80]}",
                f"{q} creates `{norm(f)[:70]}` inside a loop; it reads {names}, which the loop rebinds at every iteration, "
                f"and it is kept for later (stored / appended / returned): every such function sees the value of the "
                f"*last* iteration when it is finally called", rel, f.lineno, q, {"clauses": _area(rel)}))
    _RESOLVE[0] = None
    # the matcher still recognises what it forbids, and accepts the usual repairs
    pos = late_bound(set_parents(ast.parse(_POSITIVE)))
    neg = late_bound(set_parents(ast.parse(_NEGATIVE)))
    if len(pos) != 2 or neg:
        raise AnalysisError(f"R-LATEBIND: embedded examples: {len(pos)} of 2 positive recognised, {len(neg)} false reports")
    res.instances += 2
    res.samples = [{"embedded_positive_examples_recognised": len(pos), "embedded_repaired_twins_silent": not neg}]
    res.floor = 2
    return res


# ---------------------------------------------------------------------------------------------- R-GROUPBY
_GB_POSITIVE = '''
from itertools import groupby
def split(jobs):
    return {sign: list(group) for sign, group in groupby(jobs, key=lambda job: job.data_stored.magnitude >= 0)}
'''
_GB_NEGATIVE = '''
from itertools import groupby
def split(jobs):
    by_sign = lambda job: job.data_stored.magnitude >= 0
    return {sign: list(group) for sign, group in groupby(sorted(jobs, key=by_sign), key=by_sign)}
def split2(jobs):
    return [(k, list(g)) for k, g in groupby(sorted(jobs, key=lambda j: j.name), key=lambda j: j.name)]
def per_pattern(patterns, jobs):
    flows = ((up, job) for up in patterns for job in jobs if up in job.usage_patterns)
    return {up: [job for _, job in g] for up, g in groupby(flows, key=itemgetter(0))}
'''


def unsorted_groupbys(tree):
    out = []
    for c in ast.walk(tree):
        if not (isinstance(c, ast.Call) and _callee(c) == "groupby" and c.args):
            continue
        if isinstance(c.func, ast.Attribute) and norm(c.func.value) not in ("itertools",):
            continue                      # DataFrame.groupby groups all rows of a key, whatever their order
        key = next((k.value for k in c.keywords if k.arg == "key"), c.args[1] if len(c.args) > 1 else None)
        src = c.args[0]
        fn = src
        while fn is not None and not isinstance(fn, (ast.FunctionDef, ast.Module)):
            fn = getattr(fn, "_parent", None)
        # a local bound once to sorted(...)
        if isinstance(src, ast.Name) and fn is not None:
            defs = [a.value for a in ast.walk(fn) if isinstance(a, ast.Assign) and any(
                isinstance(t, ast.Name) and t.id == src.id for t in a.targets)]
            if len(defs) == 1:
                src = defs[0]
        ok = False
        if isinstance(src, ast.Call) and _callee(src) == "sorted":
            skey = next((k.value for k in src.keywords if k.arg == "key"), None)
            ok = (key is None and skey is None) or (key is not None and skey is not None and norm(key) == norm(skey))
        if not ok and isinstance(src, (ast.GeneratorExp, ast.ListComp)) and src.generators \
                and isinstance(src.generators[0].target, ast.Name):
            # pairs produced key by key — `((k, x) for k in K for x in … if …)` grouped by the component the outer loop
            # binds: the items of one key are produced one after the other
            outer = src.generators[0].target.id
            comp = None
            if key is None:
                comp = src.elt
            elif isinstance(key, ast.Call) and _callee(key) == "itemgetter" and len(key.args) == 1 \
                    and isinstance(key.args[0], ast.Constant) and isinstance(key.args[0].value, int) \
                    and isinstance(src.elt, ast.Tuple) and 0 <= key.args[0].value < len(src.elt.elts):
                comp = src.elt.elts[key.args[0].value]
            elif isinstance(key, ast.Lambda) and len(key.args.args) == 1 and isinstance(key.body, ast.Subscript) \
                    and isinstance(key.body.value, ast.Name) and key.body.value.id == key.args.args[0].arg \
                    and isinstance(key.body.slice, ast.Constant) and isinstance(key.body.slice.value, int) \
                    and isinstance(src.elt, ast.Tuple) and 0 <= key.body.slice.value < len(src.elt.elts):
                comp = src.elt.elts[key.body.slice.value]
            ok = isinstance(comp, ast.Name) and comp.id == outer
        if not ok:
            out.append((c, key))
    return out


@rule("R-GROUPBY")
def r_groupby(E):
    pm = E.pm
    res = RuleResult("R-GROUPBY", "itertools.groupby only merges *consecutive* items with equal keys: what it is given is "
                                  "sorted by the same key; on a hash-ordered collection (the jobs of a server, the usage "
                                  "patterns of a network) the groups — and whatever is summed per group — change from one "
                                  "build of the model to the next")
    for mod, (rel, tree, src) in sorted(pm.modules.items()):
        for c in ast.walk(tree):
            if isinstance(c, ast.Call) and _callee(c) == "groupby":
                res.instances += 1
        for c, key in unsorted_groupbys(tree):
            fn = c
            while fn is not None and not isinstance(fn, ast.FunctionDef):
                fn = getattr(fn, "_parent", None)
            q = fn.name if fn is not None else "<module>"
            res.findings.append(Finding(
                "R-GROUPBY", f"{rel}:{q} :: {norm(c)[:80]}",
                f"{q} groups `{norm(c.args[0])[:50]}` with itertools.groupby without sorting it by the grouping key first: "
                f"items with the same key that are not next to each other land in separate groups (and a dict built from "
                f"the groups keeps only the last run), so which objects are counted depends on the iteration order of the "
                f"collection", rel, c.lineno, q, {"clauses": _area(rel)}))
    pos = unsorted_groupbys(set_parents(ast.parse(_GB_POSITIVE)))
    neg = unsorted_groupbys(set_parents(ast.parse(_GB_NEGATIVE)))
    if len(pos) != 1 or neg:
        raise AnalysisError(f"R-GROUPBY: embedded examples: {len(pos)} of 1 positive recognised, {len(neg)} false reports")
    res.instances += 1
    res.floor = 1
    return res


# ---------------------------------------------------------------------------------------------- R-STALE
_ST_POSITIVE = '''
def parse(changes):
    defaults = {}
    for old, new in changes:
        container = old.container
        defaults[container.id] = container.default_values()
    for old, new in changes:
        container.check(old.attr_name, new, defaults[container.id])
'''
_ST_NEGATIVE = '''
def parse(changes):
    defaults = {}
    for old, new in changes:
        container = old.container
        defaults[container.id] = container.default_values()
    for old, new in changes:
        container = old.container
        container.check(old.attr_name, new, defaults[container.id])
def find(xs, key):
    for x in xs:
        if x.key == key:
            break
    return [x.name for y in xs]
def total(xs, ys):
    acc = 0
    for x in xs:
        acc = acc + x
    return [acc * y for y in ys]
def last(xs, ys):
    for x in xs:
        pass
    return x
def names(xs, ys):
    for x in xs:
        print(x)
    return [x for x in ys]
'''

LOOPS = (ast.For, ast.While, ast.ListComp, ast.SetComp, ast.DictComp, ast.GeneratorExp)
def _own_nodes(fn):
    """nodes of fn's own scope (nested defs / lambdas / classes excluded, comprehensions included)"""
    out, todo = [], list(fn.body)
    while todo:
        n = todo.pop()
        out.append(n)
        for c in ast.iter_child_nodes(n):
            if isinstance(c, (ast.FunctionDef, ast.AsyncFunctionDef, ast.Lambda, ast.ClassDef)):
                continue
            todo.append(c)
    return out
def _inside(n, anc):
    x = n
    while x is not None:
        if x is anc: return True
        x = getattr(x, "_parent", None)
    return False
def _has_own_break(loop):
    todo = list(loop.body)
    while todo:
        n = todo.pop()
        if isinstance(n, ast.Break): return True
        if isinstance(n, (ast.For, ast.While, ast.FunctionDef, ast.Lambda, ast.ClassDef)): 
            # a break in a nested loop's orelse belongs to us, rare: ignore
            continue
        todo += list(ast.iter_child_nodes(n))
    return False
def stale_loop_reads(tree):
    out = []
    for fn in ast.walk(tree):
        if not isinstance(fn, ast.FunctionDef): continue
        nodes = _own_nodes(fn)
        params = {a.arg for a in fn.args.args + fn.args.kwonlyargs + fn.args.posonlyargs}
        if fn.args.vararg: params.add(fn.args.vararg.arg)
        if fn.args.kwarg: params.add(fn.args.kwarg.arg)
        stores = {}
        for n in nodes:
            if isinstance(n, ast.Name) and isinstance(n.ctx, (ast.Store, ast.Del)):
                # comprehension targets are their own scope
                p = n
                comp = False
                while p is not None and p is not fn:
                    if isinstance(p, ast.comprehension) and _inside(n, p.target): comp = True
                    p = getattr(p, "_parent", None)
                if not comp:
                    stores.setdefault(n.id, []).append(n)
            if isinstance(n, ast.ExceptHandler) and n.name: stores.setdefault(n.name, []).append(n)
            if isinstance(n, ast.alias): stores.setdefault((n.asname or n.name).split(".")[0], []).append(n)
            if isinstance(n, (ast.Global, ast.Nonlocal)):
                for nm in n.names: params.add(nm)
        for L in nodes:
            if not isinstance(L, ast.For) or _has_own_break(L): continue
            for name, sts in stores.items():
                if name in params or not all(_inside(s, L) for s in sts): continue
                for u in nodes:
                    if isinstance(u, ast.Name) and u.id == name and isinstance(u.ctx, ast.Load) and not _inside(u, L) \
                            and u.lineno > L.end_lineno:
                        x, l2 = getattr(u, "_parent", None), None
                        while x is not None and x is not fn:
                            if isinstance(x, LOOPS) and not _inside(L, x):
                                # comprehension-scope name of the same spelling?
                                l2 = x
                            x = getattr(x, "_parent", None)
                        if l2 is None: continue
                        # a comprehension between u and fn that binds the name shadows it
                        x, shadow = getattr(u, "_parent", None), False
                        while x is not None and x is not fn:
                            if isinstance(x, (ast.ListComp, ast.SetComp, ast.DictComp, ast.GeneratorExp)) and any(
                                    name in {t.id for t in ast.walk(g.target) if isinstance(t, ast.Name)} for g in x.generators):
                                shadow = True
                            x = getattr(x, "_parent", None)
                        if not shadow:
                            out.append((fn, L, u, l2))
    return out


@rule("R-STALE")
def r_stale(E):
    pm = E.pm
    res = RuleResult("R-STALE", "a variable that is bound only inside a loop (its target or its body) is not read inside a "
                                "*later, separate* loop: there it no longer is the value of the current element but "
                                "whatever the last iteration of the first loop left behind (the object, attribute or value "
                                "of the last change applied to every change)")
    for mod, (rel, tree, src) in sorted(pm.modules.items()):
        res.instances += len([n for n in ast.walk(tree) if isinstance(n, ast.For)])
        seen = set()
        for fn, L, u, l2 in stale_loop_reads(tree):
            if (fn, u.id) in seen:
                continue
            seen.add((fn, u.id))
            res.findings.append(Finding(
                "R-STALE", f"{rel}:{fn.name} :: {u.id}",
                f"{fn.name} reads `{u.id}` inside the loop `{norm(l2)[:50].splitlines()[0]}` although it is bound only by "
                f"the earlier loop `for {norm(L.target)} in {norm(L.iter)[:40]}`: every iteration of the second loop sees the "
                f"value left by the last iteration of the first one", rel, u.lineno, fn.name, {"clauses": _area(rel)}))
    pos = stale_loop_reads(set_parents(ast.parse(_ST_POSITIVE)))
    neg = stale_loop_reads(set_parents(ast.parse(_ST_NEGATIVE)))
    if len({(f.name, u.id) for f, _, u, _ in pos}) != 1 or neg:
        raise AnalysisError(f"R-STALE: embedded examples: {len(pos)} positive reads recognised, {len(neg)} false reports")
    res.instances += 1
    res.samples = [{"embedded_positive_example_recognised": True, "embedded_twins_silent": True}]
    res.floor = 40
    return res


# ---------------------------------------------------------------------------------------------- R-REGEX
_RX_POSITIVE = '''
import re
def has_suffix(label, source):
    return re.search(rf"\\bfrom {source.name}\\b", label)
def strip(label, name):
    pattern = "^" + name + ": "
    return re.sub(pattern, "", label)
'''
_RX_NEGATIVE = '''
import re
def has_suffix(label, source):
    return re.search(rf"\\bfrom {re.escape(source.name)}\\b", label)
def resolution(text):
    return re.search(r"\\((\\d+)\\s*x\\s*(\\d+)\\)", text)
def n_digits(text, n):
    return re.match(rf"\\d{{{int(n)}}}", text)
'''
_RE_FUNCS = {"search", "match", "fullmatch", "sub", "subn", "findall", "finditer", "split", "compile"}


def unescaped_patterns(tree):
    """[(call, interpolated expr)]: regular expressions built from run-time text that is not passed through re.escape"""
    out = []

    def parts(e, fn, depth=0):
        """the non-constant pieces a pattern expression is assembled from"""
        if isinstance(e, ast.Constant):
            return []
        if isinstance(e, ast.JoinedStr):
            r = []
            for v in e.values:
                if isinstance(v, ast.FormattedValue):
                    r += parts(v.value, fn, depth)
            return r
        if isinstance(e, ast.BinOp) and isinstance(e.op, (ast.Add, ast.Mod)):
            return parts(e.left, fn, depth) + parts(e.right, fn, depth)
        if isinstance(e, ast.Call) and norm(e.func) in ("re.escape", "escape", "int", "len"):
            return []
        if isinstance(e, ast.Name) and fn is not None and depth < 3:
            defs = [a.value for a in ast.walk(fn) if isinstance(a, ast.Assign) and any(
                isinstance(t, ast.Name) and t.id == e.id for t in a.targets)]
            if defs:
                r = []
                for d in defs:
                    r += parts(d, fn, depth + 1)
                return r
        return [e]

    for c in ast.walk(tree):
        if not (isinstance(c, ast.Call) and isinstance(c.func, ast.Attribute) and c.func.attr in _RE_FUNCS
                and norm(c.func.value) == "re" and c.args):
            continue
        fn = c
        while fn is not None and not isinstance(fn, ast.FunctionDef):
            fn = getattr(fn, "_parent", None)
        for piece in parts(c.args[0], fn):
            out.append((c, piece))
    return out


@rule("R-REGEX")
def r_regex(E):
    pm = E.pm
    res = RuleResult("R-REGEX", "a regular expression is never assembled from run-time text (a source name, a label, an object "
                                "name) that has not gone through re.escape: names are free text — 'LCA report (2023)', "
                                "'C++ service' — and their metacharacters turn the intended literal match into another "
                                "pattern (no match: a suffix is appended twice, an object is not found; or an exception)")
    for mod, (rel, tree, src) in sorted(pm.modules.items()):
        res.instances += len([c for c in ast.walk(tree) if isinstance(c, ast.Call) and isinstance(c.func, ast.Attribute)
                              and c.func.attr in _RE_FUNCS and norm(c.func.value) == "re"])
        for c, piece in unescaped_patterns(tree):
            fn = c
            while fn is not None and not isinstance(fn, ast.FunctionDef):
                fn = getattr(fn, "_parent", None)
            q = fn.name if fn is not None else "<module>"
            res.findings.append(Finding(
                "R-REGEX", f"{rel}:{q} :: {norm(piece)[:60]}",
                f"{q} builds the pattern of `{norm(c)[:70]}` from `{norm(piece)[:40]}` without re.escape: for a text that "
                f"contains ( ) [ ] + ? * . | or ends with a non-word character the pattern no longer matches that text "
                f"literally", rel, c.lineno, q, {"clauses": _area(rel)}))
    pos = unescaped_patterns(set_parents(ast.parse(_RX_POSITIVE)))
    neg = unescaped_patterns(set_parents(ast.parse(_RX_NEGATIVE)))
    if len(pos) != 2 or neg:
        raise AnalysisError(f"R-REGEX: embedded examples: {len(pos)} of 2 positive recognised, {len(neg)} false reports")
    res.instances += 2
    res.samples = [{"embedded_positive_examples_recognised": 2, "embedded_twins_silent": True}]
    res.floor = 3
    return res


# ---------------------------------------------------------------------------------------------- R-ITERMUT
_IM_POSITIVE = '''
def rollback(self):
    for change in self.changes_list:
        previous_value, new_value = change
        new_value.replace(previous_value)
        self.changes_list.remove(change)
def prune(d):
    for k in d:
        if d[k] is None:
            del d[k]
'''
_IM_NEGATIVE = '''
def rollback(self):
    for change in list(self.changes_list):
        self.changes_list.remove(change)
def drop_first(xs, x):
    for y in xs:
        if y == x:
            xs.remove(y)
            break
def worklist(todo):
    for item in todo:
        for child in item.children:
            todo.append(child)
def rebinding(todo):
    for item in todo:
        todo = [t for t in todo if t is not item]
'''
_SHRINK = {"remove", "pop", "clear", "insert", "discard", "popitem", "__delitem__"}


def shrinking_iterations(tree):
    out = []
    for L in ast.walk(tree):
        if not isinstance(L, ast.For):
            continue
        it = L.iter
        # iterating a copy / a derived sequence is fine: list(x), x.copy(), x[:], sorted(x), reversed(list(x)), x.items() on a copy…
        base = it
        if isinstance(base, ast.Call) and isinstance(base.func, ast.Attribute) and base.func.attr in ("items", "keys", "values") and not base.args:
            base = base.func.value
        elif isinstance(base, ast.Call) and isinstance(base.func, ast.Name) and base.func.id in ("enumerate", "reversed") and base.args:
            base = base.args[0]
        if not isinstance(base, (ast.Name, ast.Attribute)):
            continue
        bt = norm(base)
        for n in [x for s in L.body for x in ast.walk(s)]:
            hit = None
            if isinstance(n, ast.Call) and isinstance(n.func, ast.Attribute) and n.func.attr in _SHRINK and norm(n.func.value) == bt:
                hit = n
            if isinstance(n, ast.Delete) and any(isinstance(t, ast.Subscript) and norm(t.value) == bt for t in n.targets):
                hit = n
            if hit is None:
                continue
            # followed by break / return on the same path: the iteration stops, nothing is skipped
            st = hit
            while not isinstance(st, ast.stmt):
                st = st._parent
            blk = None
            p = st._parent
            for f in ("body", "orelse"):
                b = getattr(p, f, None)
                if isinstance(b, list) and st in b:
                    blk = b
            after = blk[blk.index(st) + 1:] if blk else []
            if any(isinstance(a, (ast.Break, ast.Return, ast.Raise)) for a in after):
                continue
            out.append((L, hit))
    return out


@rule("R-ITERMUT")
def r_itermut(E):
    pm = E.pm
    res = RuleResult("R-ITERMUT", "no loop removes from (or inserts into) the very collection it iterates — without leaving the "
                                  "loop right after: the iterator then skips the element that slid into the freed position, so "
                                  "'for every change / value / object' silently becomes 'for every other one'")
    for mod, (rel, tree, src) in sorted(pm.modules.items()):
        res.instances += len([n for n in ast.walk(tree) if isinstance(n, ast.For)])
        for L, hit in shrinking_iterations(tree):
            fn = L
            while fn is not None and not isinstance(fn, ast.FunctionDef):
                fn = getattr(fn, "_parent", None)
            q = fn.name if fn is not None else "<module>"
            res.findings.append(Finding(
                "R-ITERMUT", f"{rel}:{q} :: {norm(hit)[:60]}",
                f"{q} iterates over `{norm(L.iter)[:40]}` and, inside the loop, does `{norm(hit)[:60]}` on the same "
                f"collection: each removal shifts the remaining elements under the iterator, so every other element is "
                f"skipped (a batch of changes is only half undone)", rel, hit.lineno, q, {"clauses": _area(rel)}))
    pos = shrinking_iterations(set_parents(ast.parse(_IM_POSITIVE)))
    neg = shrinking_iterations(set_parents(ast.parse(_IM_NEGATIVE)))
    if len(pos) != 2 or neg:
        raise AnalysisError(f"R-ITERMUT: embedded examples: {len(pos)} of 2 positive recognised, {len(neg)} false reports")
    res.instances += 2
    res.samples = [{"embedded_positive_examples_recognised": 2, "embedded_twins_silent": True}]
    res.floor = 40
    return res


# ---------------------------------------------------------------------------------------------- R-MUTDEF
_MD_POSITIVE = '''
def put_back(pairs, restored_ids=[]):
    for previous, new in pairs:
        if new.id in restored_ids:
            continue
        restored_ids.append(new.id)
        new.replace(previous)
    return restored_ids
def collect(x, seen={}):
    seen[x.id] = x
    return seen
class Writer:
    def __init__(self, flag, output={}):
        self.flag = flag
        self.output = output
    def write(self, obj):
        self.output.setdefault(obj.kind, {})[obj.id] = obj
'''
_MD_NEGATIVE = '''
class Writer:
    def __init__(self, flag, output=None, names=[]):
        self.output = {} if output is None else output
        self.names = names
    def write(self, obj):
        self.output.setdefault(obj.kind, {})[obj.id] = obj
        return obj.name in self.names
def put_back(pairs, restored_ids=None):
    restored_ids = [] if restored_ids is None else restored_ids
    for previous, new in pairs:
        restored_ids.append(new.id)
    return restored_ids
def total(xs, weights=()):
    return sum(x * w for x, w in zip(xs, weights))
def names(xs, skip=[]):
    return [x for x in xs if x not in skip]
def call(method, params={}):
    params["criteria"] = params.get("criteria", ["gwp"])
    return method(**params)
'''
_GROW = {"append", "extend", "add", "update", "insert", "setdefault", "pop", "remove", "clear", "discard", "popitem", "sort"}


def mutated_defaults(tree):
    """[(function, parameter)]: parameters whose default is a mutable literal created once at definition time and that
    the body mutates in place (or stores into): the state survives from one call to the next"""
    out = []
    for fn in ast.walk(tree):
        if not isinstance(fn, (ast.FunctionDef, ast.AsyncFunctionDef)):
            continue
        pos = fn.args.posonlyargs + fn.args.args
        pairs = list(zip(pos[len(pos) - len(fn.args.defaults):], fn.args.defaults)) + [
            (a, d) for a, d in zip(fn.args.kwonlyargs, fn.args.kw_defaults) if d is not None]
        for a, d in pairs:
            mutable = isinstance(d, (ast.List, ast.Dict, ast.Set)) or (
                isinstance(d, ast.Call) and isinstance(d.func, ast.Name) and d.func.id in ("list", "dict", "set", "defaultdict"))
            if not mutable:
                continue
            rebound = any(isinstance(n, ast.Assign) and any(isinstance(t, ast.Name) and t.id == a.arg for t in n.targets)
                          for n in ast.walk(fn))
            if rebound:
                continue
            for n in ast.walk(fn):
                hit = (isinstance(n, ast.Call) and isinstance(n.func, ast.Attribute) and n.func.attr in _GROW
                       and isinstance(n.func.value, ast.Name) and n.func.value.id == a.arg) or \
                      (isinstance(n, (ast.Assign, ast.AugAssign)) and any(
                          isinstance(t, ast.Subscript) and isinstance(t.value, ast.Name) and t.value.id == a.arg
                          # (a constant key given a value that depends on nothing but the table itself is the same
                          # write at every call: `params["criteria"] = params.get("criteria", ["gwp"])`)
                          and not (isinstance(n, ast.Assign) and isinstance(t.slice, ast.Constant) and not (
                              {x.id for x in ast.walk(n.value) if isinstance(x, ast.Name)} - {a.arg}))
                          for t in (n.targets if isinstance(n, ast.Assign) else [n.target]))) or \
                      (isinstance(n, ast.AugAssign) and isinstance(n.target, ast.Name) and n.target.id == a.arg)
                if hit:
                    out.append((fn, a.arg, n, d))
                    break
            else:
                # the default kept on the object (`self.x = param`) and mutated through that attribute by the class
                cls = getattr(fn, "_parent", None)
                if not isinstance(cls, ast.ClassDef) or not fn.args.args:
                    continue
                me = fn.args.args[0].arg
                kept = [n.targets[0].attr for n in ast.walk(fn) if isinstance(n, ast.Assign) and len(n.targets) == 1
                        and isinstance(n.targets[0], ast.Attribute) and isinstance(n.targets[0].value, ast.Name)
                        and n.targets[0].value.id == me and isinstance(n.value, ast.Name) and n.value.id == a.arg]
                for x in kept:
                    def on_attr(e):
                        return isinstance(e, ast.Attribute) and e.attr == x and isinstance(e.value, ast.Name) \
                            and e.value.id in ("self", me)
                    mut = next((n for m in cls.body if isinstance(m, ast.FunctionDef) for n in ast.walk(m) if (
                        isinstance(n, ast.Call) and isinstance(n.func, ast.Attribute) and n.func.attr in _GROW | {"setdefault"}
                        and on_attr(n.func.value)) or (isinstance(n, (ast.Assign, ast.AugAssign)) and any(
                            isinstance(t, ast.Subscript) and on_attr(t.value)
                            for t in (n.targets if isinstance(n, ast.Assign) else [n.target])))), None)
                    if mut is not None:
                        out.append((fn, a.arg, mut, d))
                        break
    return out


@rule("R-MUTDEF")
def r_mutdef(E):
    pm = E.pm
    res = RuleResult("R-MUTDEF", "no function mutates a parameter whose default value is a mutable literal: the default is "
                                 "created once, when the function is defined, so what one call appends is still there at the "
                                 "next call (values 'already put back' by one failed update are skipped by every later one)")
    for mod, (rel, tree, src) in sorted(pm.modules.items()):
        res.instances += len([f for f in ast.walk(tree) if isinstance(f, ast.FunctionDef) and (f.args.defaults or any(
            d is not None for d in f.args.kw_defaults))])
        for fn, pname, n, dflt in mutated_defaults(tree):
            res.findings.append(Finding(
                "R-MUTDEF", f"{rel}:{fn.name} :: default of {pname}",
                f"{fn.name} mutates its parameter `{pname}` (`{norm(n)[:60]}`), whose default `{norm(dflt)}` is a "
                f"single object shared by all calls that do not pass it: state leaks from one call — one update, one "
                f"model — to the next", rel, n.lineno, fn.name, {"clauses": _area(rel)}))
    pos = mutated_defaults(set_parents(ast.parse(_MD_POSITIVE)))
    neg = mutated_defaults(set_parents(ast.parse(_MD_NEGATIVE)))
    if len(pos) != 3 or neg:
        raise AnalysisError(f"R-MUTDEF: embedded examples: {len(pos)} of 3 positive recognised, {len(neg)} false reports")
    res.instances += 3
    res.samples = [{"embedded_positive_examples_recognised": 3, "embedded_twins_silent": True}]
    res.floor = 20
    return res


# ---------------------------------------------------------------------------------------------- R-MEMOSCOPE
_MS_POSITIVE = '''
class Store:
    _memo = None
    @property
    def flow(self):
        memo = self._memo
        if memo is None:
            return self.compute()
        if "flow" not in memo:
            memo["flow"] = self.compute()
        return memo["flow"]
    def compute_all(self):
        self._memo = {}
        super().compute_all()
'''
_MS_NEGATIVE = '''
class Store:
    _memo = None
    @property
    def flow(self):
        memo = self._memo
        if memo is None:
            return self.compute()
        if "flow" not in memo:
            memo["flow"] = self.compute()
        return memo["flow"]
    def compute_all(self):
        self._memo = {}
        try:
            super().compute_all()
        finally:
            self._memo = None
    def compute_some(self):
        self._memo = {}
        self.work()
        self._memo.clear()
class Registry:
    def __init__(self):
        self.index = {}
    def add(self, k, v):
        if k not in self.index:
            self.index[k] = v
        return self.index[k]
'''


def unclosed_memos(tree):
    """[(class, method, attribute, opening statement)]: a method other than __init__ binds `self.X` to a fresh empty dict,
    some method of the class serves values out of X (`if k not in M: M[k] = …` with M `self.X` or a local bound to it), and
    the method that opened X never closes it (`self.X = None`, `self.X.clear()`, `del self.X`, a fresh dict again later) —
    not in a `finally`, not in straight line, not in a method of the class it calls"""
    out = []
    for cls in [c for c in ast.walk(tree) if isinstance(c, ast.ClassDef)]:
        meths = [m for m in cls.body if isinstance(m, ast.FunctionDef)]

        def memo_attrs():
            found = set()
            for m in meths:
                al = {}
                for st in ast.walk(m):
                    if isinstance(st, ast.Assign) and len(st.targets) == 1 and isinstance(st.targets[0], ast.Name) \
                            and isinstance(st.value, ast.Attribute) and isinstance(st.value.value, ast.Name) \
                            and st.value.value.id == "self":
                        al[st.targets[0].id] = st.value.attr

                def attr_of(e):
                    if isinstance(e, ast.Attribute) and isinstance(e.value, ast.Name) and e.value.id == "self":
                        return e.attr
                    if isinstance(e, ast.Name):
                        return al.get(e.id)
                    return None
                stored = {attr_of(t.value) for st in ast.walk(m) if isinstance(st, ast.Assign) for t in st.targets
                          if isinstance(t, ast.Subscript)}
                tested = {attr_of(c.comparators[0]) for c in ast.walk(m) if isinstance(c, ast.Compare) and len(c.ops) == 1
                          and isinstance(c.ops[0], (ast.NotIn, ast.In))}
                found |= (stored & tested) - {None}
            return found
        memos = memo_attrs()
        if not memos:
            continue

        def is_open(st, x):
            return isinstance(st, ast.Assign) and any(
                isinstance(t, ast.Attribute) and isinstance(t.value, ast.Name) and t.value.id == "self" and t.attr == x
                for t in st.targets) and (
                (isinstance(st.value, ast.Dict) and not st.value.keys)
                or (isinstance(st.value, ast.Call) and isinstance(st.value.func, ast.Name) and st.value.func.id in ("dict", "defaultdict", "OrderedDict")))

        def closes(m, x, seen=()):
            for st in ast.walk(m):
                if isinstance(st, ast.Assign) and any(
                        isinstance(t, ast.Attribute) and isinstance(t.value, ast.Name) and t.value.id == "self" and t.attr == x
                        for t in st.targets) and isinstance(st.value, ast.Constant) and st.value.value is None:
                    return True
                if isinstance(st, ast.Delete) and any(isinstance(t, ast.Attribute) and isinstance(t.value, ast.Name)
                                                      and t.value.id == "self" and t.attr == x for t in st.targets):
                    return True
                if isinstance(st, ast.Call) and isinstance(st.func, ast.Attribute) and st.func.attr == "clear" \
                        and isinstance(st.func.value, ast.Attribute) and isinstance(st.func.value.value, ast.Name) \
                        and st.func.value.value.id == "self" and st.func.value.attr == x:
                    return True
                if isinstance(st, ast.Call) and isinstance(st.func, ast.Attribute) and isinstance(st.func.value, ast.Name) \
                        and st.func.value.id == "self" and st.func.attr not in seen:
                    h = next((y for y in meths if y.name == st.func.attr), None)
                    if h is not None and h is not m and closes(h, x, seen + (m.name,)):
                        return True
            return False
        for m in meths:
            if m.name == "__init__":
                continue
            for x in sorted(memos):
                opens = [st for st in ast.walk(m) if is_open(st, x)]
                if opens and not closes(m, x):
                    out.append((cls, m, x, opens[0]))
    return out


@rule("R-MEMOSCOPE")
def r_memoscope(E):
    pm = E.pm
    res = RuleResult("R-MEMOSCOPE", "a per-pass memo — an attribute that a method binds to a fresh dict and out of which "
                                    "properties of the class serve values computed from the model — is closed again by the "
                                    "method that opened it (set to None, cleared): a memo left open keeps serving the values of "
                                    "that pass after inputs have changed, so later update rules read values that are not up "
                                    "to date")
    for mod, (rel, tree, src) in sorted(pm.modules.items()):
        res.instances += len([c for c in ast.walk(tree) if isinstance(c, ast.ClassDef)])
        for cls, m, x, st in unclosed_memos(tree):
            res.findings.append(Finding(
                "R-MEMOSCOPE", f"{rel}:{cls.name}.{m.name} :: {x}",
                f"{cls.name}.{m.name} opens the memo `self.{x}` (`{norm(st)}`) out of which the class serves computed values, "
                f"and never closes it: once the pass is over the memo still answers, so a value computed from the inputs of "
                f"that pass is served after an input has been edited (every later recomputation reads the stale value)",
                rel, st.lineno, f"{cls.name}.{m.name}", {"clauses": _area(rel)}))
    pos = unclosed_memos(set_parents(ast.parse(_MS_POSITIVE)))
    neg = unclosed_memos(set_parents(ast.parse(_MS_NEGATIVE)))
    if len(pos) != 1 or neg:
        raise AnalysisError(f"R-MEMOSCOPE: embedded examples: {len(pos)} of 1 positive recognised, {len(neg)} false reports")
    res.instances += 1
    res.samples = [{"embedded_positive_example_recognised": True, "embedded_twins_silent": True}]
    res.floor = 40
    return res


# ---------------------------------------------------------------------------------------------- R-NONEFILTER
_NF_POSITIVE = '''
class Node:
    @property
    def owners(self):
        return list(set(self.containers))
def first_owned(chain):
    return next((n.owners for n in chain if n.owners is not None), [])
'''
_NF_NEGATIVE = '''
class Node:
    @property
    def owners(self):
        return list(set(self.containers))
    @property
    def parent(self):
        if self.containers:
            return self.containers[0]
class Leaf:
    @property
    def owners(self):
        return None
def first_owned(chain):
    return next((n.owners for n in chain if n.owners), [])
def parents(chain):
    return [n.parent for n in chain if n.parent is not None]
def checked(chain):
    return [n for n in chain if n.owners is not None and n.owners]
'''


def _never_none(e):
    if isinstance(e, (ast.List, ast.ListComp, ast.Dict, ast.DictComp, ast.Set, ast.SetComp, ast.Tuple, ast.JoinedStr)):
        return True
    if isinstance(e, ast.Constant):
        return e.value is not None
    if isinstance(e, ast.Call) and isinstance(e.func, ast.Name) and e.func.id in ("list", "sorted", "set", "dict", "tuple",
                                                                                 "sum", "len", "str"):
        return True
    if isinstance(e, ast.BinOp) and isinstance(e.op, ast.Add):
        return _never_none(e.left) or _never_none(e.right)
    return False


def constant_none_filters(tree, extra_props=None, extra_stored=None):
    """[(function, test, property name)]: the whole condition of an `if` / a comprehension filter is `<x>.<p> is [not] None`
    where every property called p in the program returns a freshly built collection on every path (never None): the
    condition is constant, so the filter selects everything (or nothing) — the emptiness test that was meant is gone"""
    props = {}
    for cls in [c for c in ast.walk(tree) if isinstance(c, ast.ClassDef)]:
        for f in cls.body:
            if isinstance(f, ast.FunctionDef) and any(isinstance(d, ast.Name) and d.id == "property" for d in f.decorator_list):
                if any(isinstance(d, ast.Name) and d.id == "abstractmethod" for d in f.decorator_list):
                    continue      # declared only: the subclasses' definitions are the ones that run
                props.setdefault(f.name, []).append(f)
    for k, v in (extra_props or {}).items():
        props.setdefault(k, []).extend(x for x in v if not any(x is y for y in props.get(k, [])))

    def decided(never):
        def nn(e):
            # (a property that hands on another never-None property of some object is never None either)
            return _never_none(e) or (isinstance(e, ast.Attribute) and e.attr in never)
        out_ = set()
        for k, fs in props.items():
            good = True
            for f in fs:
                rets = [r for r in ast.walk(f) if isinstance(r, ast.Return)]
                falls_off = not (f.body and isinstance(f.body[-1], (ast.Return, ast.Raise)))
                good = good and bool(rets) and not falls_off and all(r.value is not None and nn(r.value) for r in rets)
            if good and fs:
                out_.add(k)
        return out_
    # greatest fixed point: properties that hand one another on (`Service.systems` is its server's `systems`) stand together
    # — among the names that are *only* properties: a name that some class also keeps as a plain attribute (`self.p = None`)
    # can be None whatever the properties of that name return
    stored = set(extra_stored or ()) | {t.attr for n in ast.walk(tree) if isinstance(n, (ast.Assign, ast.AnnAssign, ast.AugAssign))
                                        for t in (n.targets if isinstance(n, ast.Assign) else [n.target])
                                        for t in ([t] + (list(t.elts) if isinstance(t, ast.Tuple) else []))
                                        if isinstance(t, ast.Attribute)} | {
        t.id for c in ast.walk(tree) if isinstance(c, ast.ClassDef) for n in c.body if isinstance(n, ast.Assign)
        for t in n.targets if isinstance(t, ast.Name)}
    never = set(props) - stored
    for _ in range(8):
        nxt = decided(never) - stored
        if nxt == never:
            break
        never = nxt
    out = []
    if not never:
        return out, props
    for fn in [f for f in ast.walk(tree) if isinstance(f, (ast.FunctionDef, ast.AsyncFunctionDef))]:
        tests = [n.test for n in ast.walk(fn) if isinstance(n, (ast.If, ast.IfExp))] + [
            t for c in ast.walk(fn) if isinstance(c, (ast.ListComp, ast.GeneratorExp, ast.SetComp, ast.DictComp))
            for g in c.generators for t in g.ifs]
        for t in tests:
            if isinstance(t, ast.Compare) and len(t.ops) == 1 and isinstance(t.ops[0], (ast.Is, ast.IsNot)) \
                    and isinstance(t.comparators[0], ast.Constant) and t.comparators[0].value is None \
                    and isinstance(t.left, ast.Attribute) and t.left.attr in never:
                out.append((fn, t, t.left.attr))
    return out, props


@rule("R-NONEFILTER")
def r_nonefilter(E):
    pm = E.pm
    res = RuleResult("R-NONEFILTER", "a selection is never decided by `<x>.<p> is [not] None` alone when p is a property that "
                                     "returns a freshly built list on every path in every class that has it: the test is "
                                     "constant, every element passes (or none), and what was meant — is the list empty? — is "
                                     "not tested (the first object of the chain is taken for the one linked to a system)")
    # the properties of the whole package first (a name counts when *every* definition is never-None)
    allprops, allstored = {}, set()
    for mod, (rel, tree, src) in sorted(pm.modules.items()):
        _o, pr = constant_none_filters(tree)
        for k, v in pr.items():
            allprops.setdefault(k, []).extend(v)
        allstored |= {t.attr for n in ast.walk(tree) if isinstance(n, (ast.Assign, ast.AnnAssign, ast.AugAssign))
                      for t in (n.targets if isinstance(n, ast.Assign) else [n.target])
                      for t in ([t] + (list(t.elts) if isinstance(t, ast.Tuple) else [])) if isinstance(t, ast.Attribute)}
        allstored |= {t.id for c in ast.walk(tree) if isinstance(c, ast.ClassDef) for n in c.body if isinstance(n, ast.Assign)
                      for t in n.targets if isinstance(t, ast.Name)}
    for mod, (rel, tree, src) in sorted(pm.modules.items()):
        res.instances += len([n for n in ast.walk(tree) if isinstance(n, ast.Compare) and len(n.ops) == 1
                              and isinstance(n.ops[0], (ast.Is, ast.IsNot))])
        # (judged with the package-wide table: a property defined never-None here and Optional elsewhere does not count)
        found, _ = constant_none_filters(tree, {k: v for k, v in allprops.items()}, allstored)
        for fn, t, p_ in found:
            res.findings.append(Finding(
                "R-NONEFILTER", f"{rel}:{fn.name} :: {norm(t)}",
                f"{fn.name} selects on `{norm(t)}`, but `{p_}` is a property that returns a newly built list in every class "
                f"that defines it — never None: the condition is always {'true' if isinstance(t.ops[0], ast.IsNot) else 'false'}, "
                f"so an object whose `{p_}` is empty is selected like any other", rel, t.lineno, fn.name,
                {"clauses": _area(rel)}))
    pos, _ = constant_none_filters(set_parents(ast.parse(_NF_POSITIVE)))
    neg, _ = constant_none_filters(set_parents(ast.parse(_NF_NEGATIVE)))
    if len(pos) != 1 or neg:
        raise AnalysisError(f"R-NONEFILTER: embedded examples: {len(pos)} of 1 positive recognised, {len(neg)} false reports")
    res.instances += 1
    res.samples = [{"embedded_positive_example_recognised": True, "embedded_twins_silent": True}]
    res.floor = 20
    return res


# ---------------------------------------------------------------------------------------------- R-TZFAMILY
_TF_POSITIVE = '''
from pytz.tzinfo import DstTzInfo
import pytz
def zone_entry(value):
    if isinstance(value, DstTzInfo) and value.zone is not None:
        return {"zone": value.zone}
def zone_entry2(value):
    if isinstance(value, (pytz.tzinfo.StaticTzInfo, str)):
        return {"zone": str(value)}
'''
_TF_NEGATIVE = '''
from pytz.tzinfo import BaseTzInfo
from datetime import tzinfo
def zone_entry(value):
    if isinstance(value, BaseTzInfo) and value.zone is not None:
        return {"zone": value.zone}
def zone_entry2(value):
    if isinstance(value, tzinfo):
        return {"zone": getattr(value, "zone", None)}
'''
# pytz's classes of time zones (pytz/tzinfo.py, pytz/__init__.py): BaseTzInfo is the root; zones with transitions are
# DstTzInfo, zones with one fixed offset (Etc/GMT+5, many historical-free zones) are StaticTzInfo, pytz.UTC is its own class
_PYTZ_PARTIAL = {"DstTzInfo": "zones whose offset changes (Europe/Paris)", "StaticTzInfo": "zones with one fixed offset (Etc/GMT-3)"}


def partial_tz_class_tests(tree):
    """[(function or None, isinstance call, class name)]: a class test against one of the two concrete families of pytz time
    zones (imported from pytz.tzinfo or spelled pytz.tzinfo.X) — true for part of the time zones only"""
    imported = {}
    for n in ast.walk(tree):
        if isinstance(n, ast.ImportFrom) and (n.module or "").startswith("pytz"):
            for a in n.names:
                if a.name in _PYTZ_PARTIAL:
                    imported[a.asname or a.name] = a.name
    out = []
    for c in [x for x in ast.walk(tree) if isinstance(x, ast.Call) and isinstance(x.func, ast.Name)
              and x.func.id in ("isinstance", "issubclass") and len(x.args) == 2]:
        cands = c.args[1].elts if isinstance(c.args[1], ast.Tuple) else [c.args[1]]
        for t in cands:
            nm = None
            if isinstance(t, ast.Name) and t.id in imported:
                nm = imported[t.id]
            elif isinstance(t, ast.Attribute) and t.attr in _PYTZ_PARTIAL and norm(t.value) in ("pytz.tzinfo", "tzinfo"):
                nm = t.attr
            if nm:
                fn = c
                while fn is not None and not isinstance(fn, ast.FunctionDef):
                    fn = getattr(fn, "_parent", None)
                out.append((fn, c, nm))
    return out


@rule("R-TZFAMILY")
def r_tzfamily(E):
    pm = E.pm
    res = RuleResult("R-TZFAMILY", "a time zone value is never recognised by a class test against one of pytz's two concrete "
                                   "families (DstTzInfo / StaticTzInfo): each covers part of the zones only, so UTC and the "
                                   "fixed-offset zones (or all the others) fall through — a country whose zone has no "
                                   "transitions is saved without its zone and loaded back with the default one")
    for mod, (rel, tree, src) in sorted(pm.modules.items()):
        res.instances += len([x for x in ast.walk(tree) if isinstance(x, ast.Call) and isinstance(x.func, ast.Name)
                              and x.func.id == "isinstance"])
        for fn, c, nm in partial_tz_class_tests(tree):
            q = fn.name if fn is not None else "<module>"
            res.findings.append(Finding(
                "R-TZFAMILY", f"{rel}:{q} :: {norm(c)[:80]}",
                f"{q} recognises a time zone with `{norm(c)[:80]}`: {nm} is only {_PYTZ_PARTIAL[nm]}; pytz.UTC and "
                f"{'the fixed-offset zones' if nm == 'DstTzInfo' else 'every zone with transitions'} are instances of other "
                f"subclasses of BaseTzInfo and are not recognised", rel, c.lineno, q, {"clauses": _area(rel)}))
    pos = partial_tz_class_tests(set_parents(ast.parse(_TF_POSITIVE)))
    neg = partial_tz_class_tests(set_parents(ast.parse(_TF_NEGATIVE)))
    if len(pos) != 2 or neg:
        raise AnalysisError(f"R-TZFAMILY: embedded examples: {len(pos)} of 2 positive recognised, {len(neg)} false reports")
    res.instances += 2
    res.samples = [{"embedded_positive_examples_recognised": 2, "embedded_twins_silent": True}]
    res.floor = 20
    return res


# ---------------------------------------------------------------------------------------------- R-REINDEXCOVER
_RC_POSITIVE = '''
from functools import reduce
from operator import add
def total(frames):
    hours = frames[0].index.join(frames[-1].index, how="outer")
    return reduce(add, (f.reindex(hours, fill_value=0) for f in frames))
'''
_RC_NEGATIVE = '''
from functools import reduce
from operator import add
def total(frames):
    hours = reduce(lambda a, b: a.join(b, how="outer"), (f.index for f in frames))
    return reduce(add, (f.reindex(hours, fill_value=0) for f in frames))
def total2(frames, calendar):
    return sum(f.reindex(calendar.index, fill_value=0) for f in frames)
def total3(frames):
    hours = frames[0].index
    for f in frames[1:]:
        hours = hours.union(f.index)
    return [f.reindex(hours) for f in frames]
'''


def partial_reindex_targets(tree):
    """[(function, reindex call, collection name)]: every member of a collection L is re-indexed onto an index that is computed
    from *some* members of L only (`L[0]`, `L[-1]`): the labels the other members have and these lack are dropped with their
    values. An index computed by going over L (loop, comprehension, reduce, map) or from something else is not judged."""
    from ..astutil import fully_expanded, single_assignments
    out = []
    for fn in [f for f in ast.walk(tree) if isinstance(f, ast.FunctionDef)]:
        loops = []       # (element name, collection name)
        for n in ast.walk(fn):
            gens = n.generators if isinstance(n, (ast.ListComp, ast.GeneratorExp, ast.SetComp, ast.DictComp)) else (
                [n] if isinstance(n, ast.For) else [])
            for g in gens:
                if isinstance(g.target, ast.Name) and isinstance(g.iter, ast.Name):
                    loops.append((n, g.target.id, g.iter.id))
        if not loops:
            continue
        for host, el, L in loops:
            for c in [x for x in ast.walk(host) if isinstance(x, ast.Call) and isinstance(x.func, ast.Attribute)
                      and x.func.attr == "reindex" and isinstance(x.func.value, ast.Name) and x.func.value.id == el and x.args]:
                tgt = c.args[0]
                names_rebound = {x.id for x in ast.walk(fn) if isinstance(x, ast.Name) and isinstance(x.ctx, ast.Store)}
                # an index refined in a loop (hours = hours.union(f.index)) is computed by going over something: not judged
                if isinstance(tgt, ast.Name) and tgt.id not in single_assignments(fn):
                    continue
                # (expanded, but for the collection itself: its name is what is looked for)
                from ..astutil import substitute
                m_ = {k_: v_ for k_, v_ in single_assignments(fn).items() if k_ != L}
                e = tgt
                for _ in range(4):
                    e2 = substitute(e, m_)
                    if ast.dump(e2) == ast.dump(e):
                        break
                    e = e2
                uses = [x for x in ast.walk(e) if isinstance(x, ast.Name) and x.id == L]
                if not uses:
                    continue
                for n_ in ast.walk(e):
                    for ch in ast.iter_child_nodes(n_):
                        ch._p = n_
                partial = all(isinstance(getattr(u_, "_p", None), ast.Subscript) and u_._p.value is u_
                              and not isinstance(u_._p.slice, ast.Slice) for u_ in uses)
                if partial:
                    out.append((fn, c, L))
    return out


@rule("R-REINDEXCOVER")
def r_reindexcover(E):
    pm = E.pm
    res = RuleResult("R-REINDEXCOVER", "when every member of a collection of series is re-indexed onto one index before they "
                                       "are combined, that index is computed from all the members (or from something else), "
                                       "not from a few of them picked by position: `reindex` drops the labels its target "
                                       "lacks, so hours that only a middle term has vanish from the sum with their values")
    for mod, (rel, tree, src) in sorted(pm.modules.items()):
        res.instances += len([c for c in ast.walk(tree) if isinstance(c, ast.Call) and isinstance(c.func, ast.Attribute)
                              and c.func.attr in ("reindex", "add", "join", "union")])
        for fn, c, L in partial_reindex_targets(tree):
            res.findings.append(Finding(
                "R-REINDEXCOVER", f"{rel}:{fn.name} :: {norm(c)[:70]}",
                f"{fn.name} re-indexes every member of `{L}` with `{norm(c)[:70]}`, but the target index is computed from "
                f"members picked by position only (`{L}[0]`, `{L}[-1]` …): an hour that the other members have and these lack "
                f"is dropped from the result together with its values (a series with a gap, shifted by a few hours)",
                rel, c.lineno, fn.name, {"clauses": _area(rel)}))
    pos = partial_reindex_targets(set_parents(ast.parse(_RC_POSITIVE)))
    neg = partial_reindex_targets(set_parents(ast.parse(_RC_NEGATIVE)))
    if len(pos) != 1 or neg:
        raise AnalysisError(f"R-REINDEXCOVER: embedded examples: {len(pos)} of 1 positive recognised, {len(neg)} false reports")
    res.instances += 1
    res.samples = [{"embedded_positive_example_recognised": True, "embedded_twins_silent": True}]
    res.floor = 10
    return res


# ---------------------------------------------------------------------------------------------- R-DELSHIFT
_DLS_POSITIVE = '''
def drop_unchanged(changes):
    unchanged = []
    for index, change in enumerate(changes):
        if change[0] == change[1]:
            unchanged.append(index)
    for index in unchanged:
        del changes[index]
'''
_DLS_NEGATIVE = '''
def drop_unchanged(changes):
    unchanged = []
    for index, change in enumerate(changes):
        if change[0] == change[1]:
            unchanged.append(index)
    for index in reversed(unchanged):
        del changes[index]
def drop_unchanged2(changes):
    unchanged = [i for i in range(len(changes)) if changes[i][0] == changes[i][1]]
    for index in sorted(unchanged, reverse=True):
        changes.pop(index)
def drop_keys(table, keys):
    for k in keys:
        del table[k]
'''


def shifting_deletions(tree):
    """[(function, deleting loop, sequence text)]: positions of a sequence are collected while it is walked forwards
    (`for i, x in enumerate(S)` / `for i in range(len(S))` … `L.append(i)`, or the same as a comprehension) and then deleted
    from S in that same increasing order (`for i in L: del S[i]` / `S.pop(i)`): each deletion shifts what follows by one, so
    from the second one on the wrong element goes (or IndexError)"""
    out = []
    for fn in [f for f in ast.walk(tree) if isinstance(f, ast.FunctionDef)]:
        # index lists: name -> sequence text
        idx_lists = {}
        for loop in [n for n in ast.walk(fn) if isinstance(n, ast.For)]:
            ivar = seq = None
            it = loop.iter
            if isinstance(it, ast.Call) and isinstance(it.func, ast.Name) and it.func.id == "enumerate" and it.args \
                    and isinstance(loop.target, ast.Tuple) and isinstance(loop.target.elts[0], ast.Name):
                ivar, seq = loop.target.elts[0].id, norm(it.args[0])
            elif isinstance(it, ast.Call) and isinstance(it.func, ast.Name) and it.func.id == "range" and len(it.args) == 1 \
                    and isinstance(it.args[0], ast.Call) and norm(it.args[0].func) == "len" and isinstance(loop.target, ast.Name):
                ivar, seq = loop.target.id, norm(it.args[0].args[0])
            if ivar is None:
                continue
            for c in [x for x in ast.walk(loop) if isinstance(x, ast.Call) and isinstance(x.func, ast.Attribute)
                      and x.func.attr == "append" and isinstance(x.func.value, ast.Name) and len(x.args) == 1
                      and isinstance(x.args[0], ast.Name) and x.args[0].id == ivar]:
                idx_lists[c.func.value.id] = seq
        for a in [n for n in ast.walk(fn) if isinstance(n, ast.Assign) and len(n.targets) == 1 and isinstance(n.targets[0], ast.Name)
                  and isinstance(n.value, ast.ListComp) and len(n.value.generators) == 1]:
            g = a.value.generators[0]
            if isinstance(a.value.elt, ast.Name) and isinstance(g.target, ast.Name) and a.value.elt.id == g.target.id \
                    and isinstance(g.iter, ast.Call) and norm(g.iter.func) == "range" and len(g.iter.args) == 1 \
                    and isinstance(g.iter.args[0], ast.Call) and norm(g.iter.args[0].func) == "len":
                idx_lists[a.targets[0].id] = norm(g.iter.args[0].args[0])
        if not idx_lists:
            continue
        for loop in [n for n in ast.walk(fn) if isinstance(n, ast.For) and isinstance(n.target, ast.Name)]:
            it = loop.iter
            if isinstance(it, ast.Call) and isinstance(it.func, ast.Name) and it.func.id in ("list", "tuple") and len(it.args) == 1:
                it = it.args[0]
            if not (isinstance(it, ast.Name) and it.id in idx_lists):
                continue
            seq, i = idx_lists[it.id], loop.target.id
            dels = [n for n in ast.walk(loop) if (isinstance(n, ast.Delete) and any(
                isinstance(t, ast.Subscript) and norm(t.value) == seq and norm(t.slice) == i for t in n.targets))
                or (isinstance(n, ast.Call) and isinstance(n.func, ast.Attribute) and n.func.attr == "pop"
                    and norm(n.func.value) == seq and len(n.args) == 1 and norm(n.args[0]) == i)]
            if dels:
                out.append((fn, loop, seq))
    return out


@rule("R-DELSHIFT")
def r_delshift(E):
    pm = E.pm
    res = RuleResult("R-DELSHIFT", "positions collected while a sequence is walked forwards are not deleted from it in that "
                                   "same increasing order (`for i in collected: del seq[i]`): every deletion moves what "
                                   "follows one place down, so from the second deletion on another element is removed — "
                                   "they are deleted from the end (`reversed`, `sorted(…, reverse=True)`)")
    for mod, (rel, tree, src) in sorted(pm.modules.items()):
        res.instances += len([n for n in ast.walk(tree) if isinstance(n, ast.For)])
        for fn, loop, seq in shifting_deletions(tree):
            res.findings.append(Finding(
                "R-DELSHIFT", f"{rel}:{fn.name} :: deletes from {seq} by increasing position",
                f"{fn.name} deletes from `{seq}` the positions listed in `{norm(loop.iter)}`, which were collected in "
                f"increasing order: after the first deletion every later position is off by one, so with two entries to drop "
                f"the second deletion removes the element *after* the intended one (a real change is silently discarded) or "
                f"raises IndexError", rel, loop.lineno, fn.name, {"clauses": _area(rel)}))
    pos = shifting_deletions(set_parents(ast.parse(_DLS_POSITIVE)))
    neg = shifting_deletions(set_parents(ast.parse(_DLS_NEGATIVE)))
    if len(pos) != 1 or neg:
        raise AnalysisError(f"R-DELSHIFT: embedded examples: {len(pos)} of 1 positive recognised, {len(neg)} false reports")
    res.instances += 1
    res.samples = [{"embedded_positive_example_recognised": True, "embedded_twins_silent": True}]
    res.floor = 40
    return res


# ---------------------------------------------------------------------------------------------- R-RECORDORDER
_RO_POSITIVE = '''
from typing import NamedTuple
class Span(NamedTuple):
    start: int
    end: int
    def union(self, other):
        return Span(min(self, other).start, max(self, other).end)
'''
_RO_NEGATIVE = '''
from typing import NamedTuple
class Span(NamedTuple):
    start: int
    end: int
    def union(self, other):
        return Span(min(self.start, other.start), max(self.end, other.end))
    def earliest(self, other):
        return min(self, other).start
class Version(NamedTuple):
    major: int
    minor: int
    def newest(self, other):
        return max(self, other)
'''


def record_order_misuse(tree):
    """[(class, method, expression, field)]: in a method of a NamedTuple class, `max(self, other).<f>` / `min(self, other).<f>`
    with <f> not the first field: whole records are ordered field by field from the first one, so the record chosen is the
    one with the largest / smallest *first* field — its <f> is not the largest / smallest <f>"""
    out = []
    for cls in [c for c in ast.walk(tree) if isinstance(c, ast.ClassDef)
                and any(norm(b).split(".")[-1] == "NamedTuple" for b in c.bases)]:
        fields = [b.target.id for b in cls.body if isinstance(b, ast.AnnAssign) and isinstance(b.target, ast.Name)]
        if len(fields) < 2:
            continue
        for m in [f for f in cls.body if isinstance(f, ast.FunctionDef) and f.args.args]:
            me = m.args.args[0].arg
            for a in [x for x in ast.walk(m) if isinstance(x, ast.Attribute) and x.attr in fields[1:]
                      and isinstance(x.value, ast.Call) and isinstance(x.value.func, ast.Name) and x.value.func.id in ("min", "max")
                      and len(x.value.args) >= 2 and not x.value.keywords
                      and any(isinstance(y, ast.Name) and y.id == me for y in x.value.args)]:
                out.append((cls, m, a, a.attr))
    return out


@rule("R-RECORDORDER")
def r_recordorder(E):
    pm = E.pm
    res = RuleResult("R-RECORDORDER", "a NamedTuple does not take `max(self, other).<field>` / `min(self, other).<field>` for a "
                                      "field other than its first: records compare lexicographically, so the record picked is "
                                      "the one that starts later, not the one that ends later (the union of a long period and "
                                      "a short one inside it ends with the short one)")
    for mod, (rel, tree, src) in sorted(pm.modules.items()):
        res.instances += len([c for c in ast.walk(tree) if isinstance(c, ast.Call) and isinstance(c.func, ast.Name)
                              and c.func.id in ("min", "max")])
        for cls, m, a, f in record_order_misuse(tree):
            res.findings.append(Finding(
                "R-RECORDORDER", f"{rel}:{cls.name}.{m.name} :: {norm(a)}",
                f"{cls.name}.{m.name} takes `{norm(a)}`: {cls.name} records are ordered by `{[b.target.id for b in cls.body if isinstance(b, ast.AnnAssign)][0]}` "
                f"first, so `{norm(a.value)}` is the record with the extreme first field and its `{f}` is not the extreme `{f}` — "
                f"with one period nested in another the result stops at the inner one's `{f}`", rel, a.lineno,
                f"{cls.name}.{m.name}", {"clauses": _area(rel)}))
    pos = record_order_misuse(set_parents(ast.parse(_RO_POSITIVE)))
    neg = record_order_misuse(set_parents(ast.parse(_RO_NEGATIVE)))
    if len(pos) != 1 or neg:
        raise AnalysisError(f"R-RECORDORDER: embedded examples: {len(pos)} of 1 positive recognised, {len(neg)} false reports")
    res.instances += 1
    res.samples = [{"embedded_positive_example_recognised": True, "embedded_twins_silent": True}]
    res.floor = 10
    return res


# ---------------------------------------------------------------------------------------------- R-SUMSTART
_SS_POSITIVE = '''
class Server:
    def occupied(self, resource):
        base = getattr(self, f"base_{resource}_consumption")
        extra = [getattr(s, f"base_{resource}_consumption") for s in self.installed_services]
        return sum(extra, start=base).set_label("occupied")
    def update_total(self):
        self.total = sum([j.need for j in self.jobs], self.base_need)
'''
_SS_NEGATIVE = '''
class Server:
    def occupied(self, resource):
        base = getattr(self, f"base_{resource}_consumption")
        extra = [getattr(s, f"base_{resource}_consumption") for s in self.installed_services]
        return (base + sum(extra)).set_label("occupied")
    def update_total(self):
        self.total = sum([j.need for j in self.jobs], start=EmptyExplainableObject())
    def names(self):
        return sum([s.names for s in self.parts], start=[])
'''


def sums_started_from_model_values(tree):
    """[(function, sum call, start text)]: `sum(xs, start=<a value read from the object: self.a, getattr(self, …), a local bound
    to one>)`: with nothing to add the sum *is* that object — no new value is built, so what is labelled / assigned next is
    the input itself"""
    from ..astutil import fully_expanded
    out = []
    for fn in [f for f in ast.walk(tree) if isinstance(f, ast.FunctionDef)]:
        for c in [x for x in ast.walk(fn) if isinstance(x, ast.Call) and isinstance(x.func, ast.Name) and x.func.id == "sum"]:
            st = next((k.value for k in c.keywords if k.arg == "start"), c.args[1] if len(c.args) > 1 else None)
            if st is None:
                continue
            e = fully_expanded(st, fn)
            from_self = (isinstance(e, ast.Attribute) and isinstance(e.value, ast.Name) and e.value.id == "self") or (
                isinstance(e, ast.Call) and isinstance(e.func, ast.Name) and e.func.id == "getattr" and e.args
                and isinstance(e.args[0], ast.Name) and e.args[0].id == "self")
            if from_self:
                out.append((fn, c, norm(e)))
    return out


@rule("R-SUMSTART")
def r_sumstart(E):
    pm = E.pm
    res = RuleResult("R-SUMSTART", "in model code a sum does not start from a value of the model (`sum(xs, start=self.base)`): "
                                   "with nothing to add, the result is that very object — the calculated attribute then *is* the "
                                   "input (relabelled, re-attached under another name), no formula is recorded and the next edit "
                                   "of the input lands on the wrong attribute; the start is a fresh value (an empty one) or the "
                                   "input is added with `+`")
    for mod, (rel, tree, src) in sorted(pm.modules.items()):
        res.instances += len([c for c in ast.walk(tree) if isinstance(c, ast.Call) and isinstance(c.func, ast.Name) and c.func.id == "sum"])
        if not (rel.startswith("efootprint/core") or rel.startswith("efootprint/builders")):
            continue
        for fn, c, t in sums_started_from_model_values(tree):
            pc = getattr(fn, "_parent", None)
            q = f"{pc.name}.{fn.name}" if isinstance(pc, ast.ClassDef) else fn.name
            res.findings.append(Finding(
                "R-SUMSTART", f"{rel}:{q} :: sum started from {t[:50]}",
                f"{q} computes `{norm(c)[:80]}`: when there is nothing to add, sum() returns its start — `{t[:50]}`, a value of "
                f"the model — unchanged: the result is the input object itself, which is then labelled and attached as the "
                f"calculated value (a server without installed service: `occupied_ram_per_instance` *is* `base_ram_consumption`)",
                rel, c.lineno, q, {"clauses": _area(rel)}))
    pos = sums_started_from_model_values(set_parents(ast.parse(_SS_POSITIVE)))
    neg = sums_started_from_model_values(set_parents(ast.parse(_SS_NEGATIVE)))
    if len(pos) != 2 or neg:
        raise AnalysisError(f"R-SUMSTART: embedded examples: {len(pos)} of 2 positive recognised, {len(neg)} false reports")
    res.instances += 2
    res.samples = [{"embedded_positive_examples_recognised": 2, "embedded_twins_silent": True}]
    res.floor = 20
    return res


# ---------------------------------------------------------------------------------------------- R-DROPPED
_DR_POSITIVE = '''
def parse(text, fmt):
    day, _, time_of_day = text.partition(" ")
    start = to_date(day)
    if time_of_day:
        t = to_time(time_of_day)
        start.replace(hour=t.hour, minute=t.minute)
    return start
def utc(index, zone):
    index.tz_localize(zone)
    return index
'''
_DR_NEGATIVE = '''
def parse(text, fmt):
    day, _, time_of_day = text.partition(" ")
    start = to_date(day)
    if time_of_day:
        t = to_time(time_of_day)
        start = start.replace(hour=t.hour, minute=t.minute)
    return start
def clean(df):
    df.replace(0, 1, inplace=True)
    return df
'''
_PURE_METHODS = {"replace": "datetime / str .replace() returns a new object", "tz_localize": "returns a new index / frame",
                 "tz_convert": "returns a new index / frame", "astimezone": "returns a new datetime",
                 "strip": "returns a new string", "lower": "returns a new string", "upper": "returns a new string",
                 "normalize": "returns a new timestamp", "round": "returns a new value"}


def dropped_results(tree):
    """[(function, statement, method)]: a call of a method that only *returns* a new value (datetime.replace, tz_localize,
    str.strip …) used as a statement: the result is thrown away and the receiver is what it was"""
    out = []
    for fn in [f for f in ast.walk(tree) if isinstance(f, ast.FunctionDef)]:
        for st in [x for x in ast.walk(fn) if isinstance(x, ast.Expr) and isinstance(x.value, ast.Call)
                   and isinstance(x.value.func, ast.Attribute) and x.value.func.attr in _PURE_METHODS]:
            c = st.value
            if any(k.arg == "inplace" for k in c.keywords):
                continue
            if c.func.attr == "round" and not isinstance(c.func.value, ast.Name):
                continue
            if c.func.attr == "round":
                continue      # (the explainable classes round in place)
            if isinstance(c.func.value, ast.Call) and norm(c.func.value.func) == "super":
                continue
            out.append((fn, st, c.func.attr))
    return out


@rule("R-DROPPED")
def r_dropped(E):
    pm = E.pm
    res = RuleResult("R-DROPPED", "the result of a method that only returns a new value — `datetime.replace`, `tz_localize`, "
                                  "`tz_convert`, `astimezone`, `str.strip` … — is not thrown away: as a statement the call "
                                  "changes nothing, the receiver keeps its old hour / zone")
    for mod, (rel, tree, src) in sorted(pm.modules.items()):
        res.instances += len([x for x in ast.walk(tree) if isinstance(x, ast.Expr) and isinstance(x.value, ast.Call)])
        for fn, st, m in dropped_results(tree):
            res.findings.append(Finding(
                "R-DROPPED", f"{rel}:{fn.name} :: result of .{m}() dropped",
                f"{fn.name} calls `{norm(st)[:80]}` as a statement: {_PURE_METHODS[m]}, it does not change its receiver — the "
                f"value used afterwards is the old one (a start date parsed back without its time of day: every series "
                f"read from JSON restarts at midnight)", rel, st.lineno, fn.name, {"clauses": _area(rel)}))
    pos = dropped_results(set_parents(ast.parse(_DR_POSITIVE)))
    neg = dropped_results(set_parents(ast.parse(_DR_NEGATIVE)))
    if len(pos) != 2 or neg:
        raise AnalysisError(f"R-DROPPED: embedded examples: {len(pos)} of 2 positive recognised, {len(neg)} false reports")
    res.instances += 2
    res.samples = [{"embedded_positive_examples_recognised": 2, "embedded_twins_silent": True}]
    res.floor = 100
    return res


# ---------------------------------------------------------------------------------------------- R-ORDEFAULT
@rule("R-ORDEFAULT")
def r_ordefault(E):
    pm = E.pm
    res = RuleResult("R-ORDEFAULT", "in the hourly-series builders a numeric parameter is never given its default with "
                                    "`value or default`: 0 is a legal value (an offset of 0 hours, a volume of 0) and is "
                                    "falsy, so it would silently be replaced")
    from ..astutil import fully_expanded
    rel, tree = pm.module_tree("builders/time_builders.py")
    for fn in [n for n in ast.walk(tree) if isinstance(n, ast.FunctionDef)]:
        params = {a.arg: a for a in fn.args.args + fn.args.kwonlyargs}
        for b in [n for n in ast.walk(fn) if isinstance(n, ast.BoolOp) and isinstance(n.op, ast.Or)]:
            if isinstance(getattr(b, "_parent", None), (ast.If, ast.While, ast.IfExp, ast.Assert, ast.BoolOp, ast.UnaryOp)) \
                    and getattr(b._parent, "test", b) is b:
                continue                                  # a condition, not a value
            first = fully_expanded(b.values[0], fn)
            numeric = isinstance(first, ast.BinOp) and isinstance(first.op, (ast.Add, ast.Sub, ast.Mult, ast.Div, ast.Mod,
                                                                               ast.FloorDiv))
            if isinstance(first, ast.Name) and first.id in params:
                ann = norm(params[first.id].annotation) if params[first.id].annotation is not None else ""
                used_in_arith = any(isinstance(x, ast.BinOp) and any(
                    isinstance(y, ast.Name) and y.id == first.id for y in (x.left, x.right)) for x in ast.walk(fn))
                numeric = ann in ("int", "float") or used_in_arith
            res.instances += 1
            if numeric:
                res.findings.append(Finding(
                    "R-ORDEFAULT", f"{fn.name} :: {norm(b)[:80]}",
                    f"{fn.name} takes `{norm(b.values[-1])[:40]}` whenever `{norm(b.values[0])[:50]}` is falsy — including "
                    f"when it is a legal 0 (a series that starts at the hour of its minimum, a zero volume): the series is "
                    f"built with another value than the one requested", rel, b.lineno, fn.name))
    res.floor = 0
    return res


# ---------------------------------------------------------------------------------------------- R-SWAP
_SW_POSITIVE = '''
from typing import NamedTuple
class Params(NamedTuple):
    active: float
    total: float
def read(model):
    return Params(estimate(model.total), estimate(model.active))
def area(width, height):
    return width * height
def f(height, width):
    return area(height, width)
'''
_SW_NEGATIVE = '''
from typing import NamedTuple
class Params(NamedTuple):
    active: float
    total: float
def read(model):
    return Params(estimate(model.active), estimate(model.total))
def mirrored(model):
    return Params(total=model.total, active=model.active)
def area(width, height):
    return width * height
def f(height, width):
    return area(width, height) + area(height=height, width=width) + area(height, height)
'''


def _arg_word(e):
    """the word an argument is named by: `x`, `….x`, `….["x"]`, or that of the single argument of a call around it"""
    while isinstance(e, ast.Call) and len(e.args) == 1 and not e.keywords and not isinstance(e.args[0], ast.Starred):
        e = e.args[0]
    if isinstance(e, ast.Name):
        return e.id
    if isinstance(e, ast.Attribute):
        return e.attr
    if isinstance(e, ast.Subscript) and isinstance(e.slice, ast.Constant) and isinstance(e.slice.value, str):
        return e.slice.value
    return None


def positional_signatures(trees):
    """{callable name: positional parameter names} for the functions, classes (constructor, NamedTuple / dataclass
    fields) and methods defined in `trees`; a name defined twice with different parameters is left out"""
    sigs, clash = {}, set()

    def put(name, ps):
        if name in sigs and sigs[name] != ps:
            clash.add(name)
        sigs[name] = ps
    for tree in trees:
        for n in ast.walk(tree):
            if isinstance(n, ast.FunctionDef):
                ps = [a.arg for a in n.args.posonlyargs + n.args.args]
                is_method = isinstance(getattr(n, "_parent", None), ast.ClassDef)
                static = any(isinstance(d, ast.Name) and d.id == "staticmethod" for d in n.decorator_list)
                if is_method and not static:
                    ps = ps[1:]
                if n.name != "__init__":
                    put(("m:" if is_method else "f:") + n.name, ps)
            elif isinstance(n, ast.ClassDef):
                init = next((b for b in n.body if isinstance(b, ast.FunctionDef) and b.name == "__init__"), None)
                record = any(norm(b).split(".")[-1] == "NamedTuple" for b in n.bases) or any(
                    "dataclass" in norm(d) for d in n.decorator_list)
                if init is not None:
                    put("f:" + n.name, [a.arg for a in init.args.posonlyargs + init.args.args][1:])
                elif record:
                    put("f:" + n.name, [b.target.id for b in n.body if isinstance(b, ast.AnnAssign) and isinstance(b.target, ast.Name)])
            elif isinstance(n, ast.Assign) and len(n.targets) == 1 and isinstance(n.targets[0], ast.Name) \
                    and isinstance(n.value, ast.Call) and norm(n.value.func).split(".")[-1] == "namedtuple" and len(n.value.args) >= 2:
                spec = n.value.args[1]
                names = [x.value for x in spec.elts if isinstance(x, ast.Constant)] if isinstance(spec, (ast.List, ast.Tuple)) \
                    else str(getattr(spec, "value", "")).replace(",", " ").split()
                put("f:" + n.targets[0].id, names)
    return {k: v for k, v in sigs.items() if k not in clash}


def swapped_arguments(tree, sigs):
    """[(call, i, j)]: two positional arguments each named by the *other's* parameter"""
    out = []
    for c in ast.walk(tree):
        if not isinstance(c, ast.Call) or len(c.args) < 2 or any(isinstance(a, ast.Starred) for a in c.args):
            continue
        if isinstance(c.func, ast.Name):
            ps = sigs.get("f:" + c.func.id)
        elif isinstance(c.func, ast.Attribute):
            ps = sigs.get("m:" + c.func.attr)
        else:
            ps = None
        if not ps:
            continue
        words = [_arg_word(a) for a in c.args]
        n = min(len(words), len(ps))
        for i in range(n):
            for j in range(i + 1, n):
                if words[i] and words[j] and words[i] != words[j] and words[i] == ps[j] and words[j] == ps[i]:
                    out.append((c, i, j, ps))
    return out


@rule("R-SWAP")
def r_swap(E):
    pm = E.pm
    res = RuleResult("R-SWAP", "no call of a function / constructor / record of the package passes, positionally, two "
                               "arguments that are each named by the other's parameter (f(total, active) for f(active, "
                               "total)): the two values silently change places")
    trees = [t for _, (r_, t, _s) in sorted(pm.modules.items())]
    sigs = positional_signatures(trees)
    for mod, (rel, tree, src) in sorted(pm.modules.items()):
        res.instances += len([c for c in ast.walk(tree) if isinstance(c, ast.Call) and len(c.args) >= 2])
        for c, i, j, ps in swapped_arguments(tree, sigs):
            fn = c
            while fn is not None and not isinstance(fn, ast.FunctionDef):
                fn = getattr(fn, "_parent", None)
            q = fn.name if fn is not None else "<module>"
            res.findings.append(Finding(
                "R-SWAP", f"{rel}:{q} :: {norm(c.func)}",
                f"{q} calls `{norm(c)[:90]}`: argument {i + 1} is named `{_arg_word(c.args[i])}` and argument {j + 1} "
                f"`{_arg_word(c.args[j])}`, but the parameters at those positions are `{ps[i]}` and `{ps[j]}` — the two "
                f"values change places", rel, c.lineno, q, {"clauses": _area(rel)}))
    ptree, ntree = set_parents(ast.parse(_SW_POSITIVE)), set_parents(ast.parse(_SW_NEGATIVE))
    pos = swapped_arguments(ptree, positional_signatures([ptree]))
    neg = swapped_arguments(ntree, positional_signatures([ntree]))
    if len(pos) != 2 or neg:
        raise AnalysisError(f"R-SWAP: embedded examples: {len(pos)} of 2 positive recognised, {len(neg)} false reports")
    res.instances += 2
    res.samples = [{"embedded_positive_examples_recognised": 2, "embedded_twins_silent": True,
                    "signatures_indexed": len(sigs)}]
    res.floor = 200
    return res


# ---------------------------------------------------------------------------------------------- R-DEDUPSKIP
_DS_POSITIVE = '''
def infrastructure(usage_patterns):
    servers, networks, visited = set(), set(), set()
    for usage_pattern in usage_patterns:
        usage_journey = usage_pattern.usage_journey
        if usage_journey in visited:
            continue
        visited.add(usage_journey)
        networks.add(usage_pattern.network)
        servers.update(usage_journey.servers)
    return servers, networks
'''
_DS_NEGATIVE = '''
def infrastructure(usage_patterns):
    servers, networks, visited = set(), set(), set()
    for usage_pattern in usage_patterns:
        networks.add(usage_pattern.network)
        usage_journey = usage_pattern.usage_journey
        if usage_journey in visited:
            continue
        visited.add(usage_journey)
        servers.update(usage_journey.servers)
    return servers, networks
def distinct(xs):
    seen, out = set(), []
    for x in xs:
        if x.id in seen:
            continue
        seen.add(x.id)
        out.append(x)
    return out
'''
_COLLECT = {"add", "update", "append", "extend"}


def dedup_skips(tree):
    """[(loop, skip, collecting statement)]: inside a loop over elements, `if A in S: continue` + `S.add(A)` (each A is
    handled once) followed by a statement that collects, into another collection, something of the *element* that is not
    a function of A: two elements with the same A can differ in it, and the second one's is never collected"""
    out = []
    for loop in ast.walk(tree):
        if not isinstance(loop, ast.For):
            continue
        elem = _bound_names(loop.target)
        body = loop.body
        for i, st in enumerate(body):
            if not (isinstance(st, ast.If) and not st.orelse and len(st.body) == 1 and isinstance(st.body[0], ast.Continue)
                    and isinstance(st.test, ast.Compare) and len(st.test.ops) == 1 and isinstance(st.test.ops[0], ast.In)
                    and isinstance(st.test.comparators[0], ast.Name)):
                continue
            seen, key = st.test.comparators[0].id, st.test.left
            marks = [s for s in body[i + 1:] if isinstance(s, ast.Expr) and isinstance(s.value, ast.Call)
                     and isinstance(s.value.func, ast.Attribute) and s.value.func.attr == "add"
                     and isinstance(s.value.func.value, ast.Name) and s.value.func.value.id == seen
                     and len(s.value.args) == 1 and norm(s.value.args[0]) == norm(key)]
            if not marks:
                continue
            # names that are functions of the key: the key's own names (unless they are the element itself) and the locals
            # assigned, in the loop, from expressions that read them
            of_key = {x.id for x in ast.walk(key) if isinstance(x, ast.Name)} - elem
            if not of_key:
                continue      # the key is spelled from the element directly (x.id): anything of the element may depend on it
            grew = True
            while grew:
                grew = False
                for s in body:
                    if isinstance(s, ast.Assign) and any(isinstance(x, ast.Name) and x.id in of_key for x in ast.walk(s.value)):
                        for t in s.targets:
                            for x in ast.walk(t):
                                if isinstance(x, ast.Name) and x.id not in of_key:
                                    of_key.add(x.id)
                                    grew = True
            for s in body[i + 1:]:
                if s in marks or not (isinstance(s, ast.Expr) and isinstance(s.value, ast.Call)
                                      and isinstance(s.value.func, ast.Attribute) and s.value.func.attr in _COLLECT
                                      and isinstance(s.value.func.value, ast.Name) and s.value.args):
                    continue
                read = {x.id for a in s.value.args for x in ast.walk(a) if isinstance(x, ast.Name)}
                if read & elem and not (read & of_key):
                    out.append((loop, st, s))
    return out


@rule("R-DEDUPSKIP")
def r_dedupskip(E):
    pm = E.pm
    res = RuleResult("R-DEDUPSKIP", "a loop that handles each key once (`if key in seen: continue`) does not, after that skip, "
                                    "collect something of the element that is not a function of the key: the elements that "
                                    "share a key with an earlier one would never contribute it (the network of a usage "
                                    "pattern whose journey was already visited)")
    for mod, (rel, tree, src) in sorted(pm.modules.items()):
        res.instances += len([n for n in ast.walk(tree) if isinstance(n, ast.For)])
        for loop, skip, st in dedup_skips(tree):
            fn = loop
            while fn is not None and not isinstance(fn, ast.FunctionDef):
                fn = getattr(fn, "_parent", None)
            q = fn.name if fn is not None else "<module>"
            res.findings.append(Finding(
                "R-DEDUPSKIP", f"{rel}:{q} :: {norm(st)[:60]}",
                f"{q}: `{norm(st)[:60]}` comes after `{norm(skip.test)[:50]}: continue`, but what it collects does not "
                f"depend on `{norm(skip.test.left)[:30]}`: an element whose `{norm(skip.test.left)[:30]}` was already seen "
                f"is skipped before it contributes — its part is missing from the collection (and from whatever is "
                f"summed over it)", rel, st.lineno, q, {"clauses": _area(rel)}))
    pos = dedup_skips(set_parents(ast.parse(_DS_POSITIVE)))
    neg = dedup_skips(set_parents(ast.parse(_DS_NEGATIVE)))
    if len(pos) != 1 or neg:
        raise AnalysisError(f"R-DEDUPSKIP: embedded examples: {len(pos)} of 1 positive recognised, {len(neg)} false reports")
    res.instances += 1
    res.samples = [{"embedded_positive_examples_recognised": 1, "embedded_twins_silent": True}]
    res.floor = 40
    return res


# ---------------------------------------------------------------------------------------------- R-LOOKUPKEY
_LK_POSITIVE = '''
KNOWN = {s.name: s for s in ALL}
def source_of(d):
    key = d["source"]["name"]
    return KNOWN.get(key) or Source(d["source"]["name"], d["source"]["link"])
def zone_of(name, offset):
    return ZONES[name] if name in ZONES else Zone(name, offset)
'''
_LK_NEGATIVE = '''
KNOWN = {(s.name, s.link): s for s in ALL}
def source_of(d):
    key = (d["source"]["name"], d["source"]["link"])
    return KNOWN.get(key) or Source(d["source"]["name"], d["source"]["link"])
def zone_of(name):
    return ZONES.get(name) or Zone(name)
def label_of(d):
    return d.get("label") or default_label(d["id"], d["kind"])
'''


def _data_leaves(e, fn):
    """texts of the maximal data reads of an expression (names, attribute / constant-subscript chains), locals expanded"""
    from ..astutil import fully_expanded
    e = fully_expanded(e, fn) if fn is not None else e
    out = set()

    def walk(x):
        if isinstance(x, (ast.Name, ast.Attribute)) or (isinstance(x, ast.Subscript) and isinstance(x.slice, ast.Constant)):
            b = x
            while isinstance(b, (ast.Attribute, ast.Subscript)):
                b = b.value
            if isinstance(b, ast.Name):
                out.add(norm(x))
                return
        for ch in ast.iter_child_nodes(x):
            walk(ch)
    walk(e)
    return out


def incomplete_lookup_keys(tree):
    """[(node, table, key leaves, builder leaves)]: `T.get(K) or Build(args)` / `T[K] if K in T else Build(args)` with T a
    module-level table (an upper-case name) where Build reads data that K does not contain: two requests that share K but
    differ in the rest get the same object from the table"""
    out = []
    for n in ast.walk(tree):
        table = key = build = None
        if isinstance(n, ast.BoolOp) and isinstance(n.op, ast.Or) and len(n.values) == 2:
            a, b = n.values
            if isinstance(a, ast.Call) and isinstance(a.func, ast.Attribute) and a.func.attr == "get" and len(a.args) == 1 \
                    and isinstance(a.func.value, ast.Name) and a.func.value.id.isupper() and isinstance(b, ast.Call):
                table, key, build = a.func.value.id, a.args[0], b
        if isinstance(n, ast.IfExp) and isinstance(n.test, ast.Compare) and len(n.test.ops) == 1 \
                and isinstance(n.test.ops[0], ast.In) and isinstance(n.test.comparators[0], ast.Name) \
                and n.test.comparators[0].id.isupper() and isinstance(n.body, ast.Subscript) \
                and norm(n.body.value) == n.test.comparators[0].id and isinstance(n.orelse, ast.Call):
            table, key, build = n.test.comparators[0].id, n.test.left, n.orelse
        if table is None or not (isinstance(build.func, ast.Name) and build.func.id[:1].isupper()):
            continue
        fn = n
        while fn is not None and not isinstance(fn, ast.FunctionDef):
            fn = getattr(fn, "_parent", None)
        kl = _data_leaves(key, fn)
        bl = set()
        for a_ in list(build.args) + [k.value for k in build.keywords]:
            bl |= _data_leaves(a_, fn)
        extra = {x for x in bl - kl if not any(x.startswith(k_ + ".") or x.startswith(k_ + "[") or k_.startswith(x + "[")
                                                 or k_.startswith(x + ".") for k_ in kl)}
        if kl and extra:
            out.append((n, table, kl, extra))
    return out


@rule("R-LOOKUPKEY")
def r_lookupkey(E):
    pm = E.pm
    res = RuleResult("R-LOOKUPKEY", "`TABLE.get(key) or Build(…)` (an object taken from a table of known ones, built only when "
                                    "absent): the key contains every datum the builder would use — otherwise a request that "
                                    "shares the key with a known object but differs in the rest silently gets the known one")
    for mod, (rel, tree, src) in sorted(pm.modules.items()):
        res.instances += len([n for n in ast.walk(tree) if isinstance(n, (ast.BoolOp, ast.IfExp))])
        for n, table, kl, extra in incomplete_lookup_keys(tree):
            fn = n
            while fn is not None and not isinstance(fn, ast.FunctionDef):
                fn = getattr(fn, "_parent", None)
            q = fn.name if fn is not None else "<module>"
            res.findings.append(Finding(
                "R-LOOKUPKEY", f"{rel}:{q} :: {table}",
                f"{q} looks `{sorted(kl)}` up in {table} and builds from `{sorted(extra | kl)}` only when it is absent: "
                f"`{sorted(extra)}` is not part of the key, so a value that shares the key with a known entry but has "
                f"another {sorted(extra)[0]} comes back as the known entry (a saved source with a custom link loads with "
                f"the library's link)", rel, n.lineno, q, {"clauses": _area(rel)}))
    pos = incomplete_lookup_keys(set_parents(ast.parse(_LK_POSITIVE)))
    neg = incomplete_lookup_keys(set_parents(ast.parse(_LK_NEGATIVE)))
    if len(pos) != 2 or neg:
        raise AnalysisError(f"R-LOOKUPKEY: embedded examples: {len(pos)} of 2 positive recognised, {len(neg)} false reports")
    res.instances += 2
    res.samples = [{"embedded_positive_examples_recognised": 2, "embedded_twins_silent": True}]
    res.floor = 50
    return res


# ---------------------------------------------------------------------------------------------- R-ALIASREBIND
_AR_POSITIVE = '''
class Update:
    def __init__(self):
        self.todo = []
        self.done = []
        self.stages = ((self.todo, self.done),)
        self.run()
    def run(self):
        self.done = results = []
        for x in self.todo:
            results.append(x)
'''
_AR_NEGATIVE = '''
class Update:
    def __init__(self):
        self.todo = []
        self.done = []
        self.stages = ((self.todo, self.done),)
        self.run()
    def run(self):
        results = self.done
        results.clear()
        self.todo[:] = [1, 2]
        for x in self.todo:
            results.append(x)
class Other:
    def __init__(self, a):
        self.a = a
        self.pair = (self.a, 1)
    def reset(self):
        self.a = None
        self.pair = (self.a, 1)
'''


def rebound_after_aliasing(tree):
    """[(class, composite attribute, held attribute, rebinding statement)]: `self.C = (… self.X …)` built once in the
    constructor from a *mutable list* attribute X (X is bound to a list literal / list() before), and `self.X = …` bound
    again — elsewhere in the class, or later in the constructor: C keeps the old list, whoever reads the lists through C
    sees none of what is put into the new one"""
    from ..astutil import source_order
    out = []
    for cls in [n for n in ast.walk(tree) if isinstance(n, ast.ClassDef)]:
        init = next((f for f in cls.body if isinstance(f, ast.FunctionDef) and f.name == "__init__"), None)
        if init is None:
            continue
        rank = source_order(cls)
        comps = []
        for n in ast.walk(init):
            if isinstance(n, ast.Assign) and len(n.targets) == 1 and isinstance(n.targets[0], ast.Attribute) \
                    and norm(n.targets[0].value) == "self" and isinstance(n.value, (ast.Tuple, ast.List, ast.Dict)):
                held = set()

                def collect(e):
                    # direct elements of nested literals only: `[c[0] for c in self.L]` reads L, it does not hold it
                    if isinstance(e, (ast.Tuple, ast.List)):
                        for x in e.elts:
                            collect(x)
                    elif isinstance(e, ast.Dict):
                        for x in e.values:
                            collect(x)
                    elif isinstance(e, ast.Attribute) and isinstance(e.value, ast.Name) and e.value.id == "self":
                        held.add(e.attr)
                collect(n.value)
                if held:
                    comps.append((n, held))
        if not comps:
            continue
        assigns = {}
        for f in [x for x in cls.body if isinstance(x, ast.FunctionDef)]:
            for a in ast.walk(f):
                if isinstance(a, ast.Assign):
                    for t in a.targets:
                        if isinstance(t, ast.Attribute) and isinstance(t.value, ast.Name) and t.value.id == "self":
                            assigns.setdefault(t.attr, []).append((a, f))
        for comp, held in comps:
            cname = comp.targets[0].attr
            if len(assigns.get(cname, [])) != 1:
                continue          # the composite itself is rebuilt: it follows its parts
            for x in sorted(held):
                binds = assigns.get(x, [])
                is_list = any(isinstance(a.value, (ast.List, ast.ListComp)) or (
                    isinstance(a.value, ast.Call) and norm(a.value.func) == "list") for a, _ in binds)
                if not is_list:
                    continue
                for a, f in binds:
                    if f is init and rank[id(a)] < rank[id(comp)]:
                        continue
                    out.append((cls, cname, x, a, f))
    return out


@rule("R-ALIASREBIND")
def r_aliasrebind(E):
    pm = E.pm
    res = RuleResult("R-ALIASREBIND", "a list attribute that the constructor has put into another attribute (a tuple of "
                                      "stages, a table of lists) is only ever changed in place afterwards: binding the "
                                      "attribute to a new list leaves the holder with the old one — whoever walks the "
                                      "holder (the undo of a failed update) no longer sees what is put into the new list")
    for mod, (rel, tree, src) in sorted(pm.modules.items()):
        res.instances += len([n for n in ast.walk(tree) if isinstance(n, ast.ClassDef)])
        for cls, cname, x, a, f in rebound_after_aliasing(tree):
            res.findings.append(Finding(
                "R-ALIASREBIND", f"{rel}:{cls.name}.{f.name} :: self.{x} held by self.{cname}",
                f"{cls.name}.{f.name} binds self.{x} to a new object (`{norm(a)[:60]}`) although the constructor stored the "
                f"previous list in self.{cname}: self.{cname} keeps the old (empty) list, so what is appended to the new one "
                f"is invisible to everything that reads the lists through self.{cname}", rel, a.lineno,
                f"{cls.name}.{f.name}", {"clauses": _area(rel)}))
    pos = rebound_after_aliasing(set_parents(ast.parse(_AR_POSITIVE)))
    neg = rebound_after_aliasing(set_parents(ast.parse(_AR_NEGATIVE)))
    if len(pos) != 1 or neg:
        raise AnalysisError(f"R-ALIASREBIND: embedded examples: {len(pos)} of 1 positive recognised, {len(neg)} false reports")
    res.instances += 1
    res.samples = [{"embedded_positive_examples_recognised": 1, "embedded_twins_silent": True}]
    res.floor = 30
    return res


# ---------------------------------------------------------------------------------------------- R-ONESHOT
_OS_POSITIVE = '''
from itertools import chain
class Update:
    def __init__(self):
        self.pairs = self.iter_pairs()
        self.set()
        self.reset()
    def iter_pairs(self):
        return chain(zip(self.a, self.b), ((c[0], c[1]) for c in self.changes))
    def set(self):
        for old, new in self.pairs:
            old.replace(new)
    def reset(self):
        for old, new in self.pairs:
            new.replace(old)
'''
_OS_NEGATIVE = '''
from itertools import chain
class Update:
    def __init__(self):
        self.pairs = list(self.iter_pairs())
        self.once = zip(self.a, self.b)
        self.set()
        self.reset()
    def iter_pairs(self):
        return chain(zip(self.a, self.b), ((c[0], c[1]) for c in self.changes))
    def set(self):
        for old, new in self.pairs:
            old.replace(new)
    def reset(self):
        for old, new in self.pairs:
            new.replace(old)
    def first(self):
        return next(self.once)
'''
_ITER_CALLS = {"zip", "map", "filter", "chain", "chain.from_iterable", "itertools.chain", "itertools.chain.from_iterable",
               "iter", "reversed", "enumerate", "islice", "itertools.islice", "zip_longest", "itertools.zip_longest"}


def oneshot_attributes(tree):
    """[(class, attribute, assignment, read sites)]: `self.X = <iterator>` (zip / map / chain / a generator expression, or a
    method of the class that returns one or yields) read by iteration at two places or more, or inside a loop: the first
    walk exhausts it, every later one sees nothing"""
    out = []
    for cls in [n for n in ast.walk(tree) if isinstance(n, ast.ClassDef)]:
        meths = {f.name: f for f in cls.body if isinstance(f, ast.FunctionDef)}

        def is_iter(e, depth=0):
            if isinstance(e, ast.GeneratorExp):
                return True
            if isinstance(e, ast.Call):
                if norm(e.func) in _ITER_CALLS:
                    return True
                if isinstance(e.func, ast.Attribute) and isinstance(e.func.value, ast.Name) and e.func.value.id in ("self", "cls") \
                        and e.func.attr in meths and depth < 3:
                    m = meths[e.func.attr]
                    own = [n for n in ast.walk(m) if not isinstance(n, (ast.FunctionDef, ast.Lambda)) or n is m]
                    if any(isinstance(n, (ast.Yield, ast.YieldFrom)) for n in own):
                        return True
                    rets = [r.value for r in own if isinstance(r, ast.Return) and r.value is not None]
                    return bool(rets) and all(is_iter(r, depth + 1) for r in rets)
            return False
        for f in meths.values():
            for a in ast.walk(f):
                if not (isinstance(a, ast.Assign) and is_iter(a.value)):
                    continue
                for t in a.targets:
                    if not (isinstance(t, ast.Attribute) and isinstance(t.value, ast.Name) and t.value.id == "self"):
                        continue
                    walks = []
                    for g in meths.values():
                        for n in ast.walk(g):
                            it = None
                            if isinstance(n, (ast.For, ast.comprehension)):
                                it = n.iter
                            elif isinstance(n, ast.Call) and norm(n.func) in ("list", "tuple", "sorted", "set", "sum", "len", "reversed") and n.args:
                                it = n.args[0]
                            elif isinstance(n, ast.Call) and n.args and any(norm(x) == f"self.{t.attr}" for x in n.args):
                                it = next(x for x in n.args if norm(x) == f"self.{t.attr}")   # handed to something that walks it
                            if it is not None and norm(it) == f"self.{t.attr}":
                                walks.append(n)
                    in_loop = False
                    for w in walks:
                        x = getattr(w, "_parent", None)
                        while x is not None and not isinstance(x, ast.FunctionDef):
                            if isinstance(x, (ast.For, ast.While)) and x is not w:
                                in_loop = True
                            x = getattr(x, "_parent", None)
                    if len(walks) >= 2 or in_loop:
                        out.append((cls, t.attr, a, walks))
    return out


@rule("R-ONESHOT")
def r_oneshot(E):
    pm = E.pm
    res = RuleResult("R-ONESHOT", "an attribute that is walked more than once holds a list, not a one-shot iterator (zip, map, "
                                  "chain, a generator): the first walk would exhaust it and the later ones — switching a "
                                  "simulation off again — would silently do nothing")
    for mod, (rel, tree, src) in sorted(pm.modules.items()):
        res.instances += len([n for n in ast.walk(tree) if isinstance(n, ast.Assign) and any(
            isinstance(t, ast.Attribute) and norm(t.value) == "self" for t in n.targets)])
        for cls, attr, a, walks in oneshot_attributes(tree):
            fn = a
            while fn is not None and not isinstance(fn, ast.FunctionDef):
                fn = getattr(fn, "_parent", None)
            q = f"{cls.name}.{fn.name}" if fn is not None else cls.name
            res.findings.append(Finding(
                "R-ONESHOT", f"{rel}:{q} :: self.{attr}",
                f"{q} stores an iterator in self.{attr} (`{norm(a.value)[:60]}`) and the class walks self.{attr} at "
                f"{len(walks)} places (lines {sorted({w.lineno if hasattr(w, 'lineno') else a.lineno for w in walks})}): only the "
                f"first walk sees the elements, the others run over nothing", rel, a.lineno, q, {"clauses": _area(rel)}))
    pos = oneshot_attributes(set_parents(ast.parse(_OS_POSITIVE)))
    neg = oneshot_attributes(set_parents(ast.parse(_OS_NEGATIVE)))
    if len(pos) != 1 or neg:
        raise AnalysisError(f"R-ONESHOT: embedded examples: {len(pos)} of 1 positive recognised, {len(neg)} false reports")
    res.instances += 1
    res.samples = [{"embedded_positive_examples_recognised": 1, "embedded_twins_silent": True}]
    res.floor = 100
    return res


# ---------------------------------------------------------------------------------------------- R-DDKEY
_DK_POSITIVE = '''
from collections import defaultdict
class Server:
    @property
    def jobs_by_origin(self):
        by_origin = defaultdict(list)
        for service in self.services:
            for job in service.jobs:
                by_origin[service].append(job)
        return by_origin
    @property
    def installed_services(self):
        return [origin for origin in self.jobs_by_origin]
'''
_DK_NEGATIVE = '''
from collections import defaultdict
class Server:
    @property
    def jobs_by_origin(self):
        by_origin = defaultdict(list)
        for service in self.services:
            by_origin[service].extend(service.jobs)
        return by_origin
    @property
    def installed_services(self):
        return [origin for origin in self.jobs_by_origin]
    @property
    def jobs_by_kind(self):
        by_kind = defaultdict(list)
        for service in self.services:
            for job in service.jobs:
                by_kind[service].append(job)
        return by_kind
    @property
    def all_jobs(self):
        return [job for jobs in self.jobs_by_kind.values() for job in jobs]
'''


def lazily_keyed_defaultdicts(tree):
    """[(function, dict name, key text, consumer)]: a defaultdict whose key for an element of the outer loop is only
    created inside an inner loop over that element's items — an element without items never becomes a key — while the
    keys of the returned dict are enumerated elsewhere in the class as *the* elements (for k in self.<f>, .keys(), in)"""
    out = []
    for cls in [n for n in ast.walk(tree) if isinstance(n, ast.ClassDef)]:
        meths = [f for f in cls.body if isinstance(f, ast.FunctionDef)]
        for f in meths:
            dds = {a.targets[0].id for a in ast.walk(f) if isinstance(a, ast.Assign) and len(a.targets) == 1
                   and isinstance(a.targets[0], ast.Name) and isinstance(a.value, ast.Call)
                   and norm(a.value.func).split(".")[-1] == "defaultdict"}
            returned = {norm(r.value) for r in ast.walk(f) if isinstance(r, ast.Return) and r.value is not None}
            for d in sorted(dds & returned):
                for outer in [n for n in ast.walk(f) if isinstance(n, ast.For)]:
                    ov = _bound_names(outer.target)
                    acc = [s for s in ast.walk(outer) if isinstance(s, ast.Subscript) and isinstance(s.value, ast.Name)
                           and s.value.id == d and {x.id for x in ast.walk(s.slice) if isinstance(x, ast.Name)} & ov]
                    if not acc:
                        continue

                    def inside_inner(s):
                        x = getattr(s, "_parent", None)
                        while x is not None and x is not outer:
                            if isinstance(x, (ast.For, ast.While)):
                                return True
                            x = getattr(x, "_parent", None)
                        return False
                    if not all(inside_inner(s) for s in acc):
                        continue
                    # who enumerates the keys?
                    me = f"self.{f.name}"
                    consumer = None
                    for g in meths:
                        for n in ast.walk(g):
                            it = None
                            if isinstance(n, (ast.For, ast.comprehension)):
                                it = n.iter
                            elif isinstance(n, ast.Compare) and any(isinstance(o, (ast.In, ast.NotIn)) for o in n.ops):
                                it = n.comparators[0]
                            elif isinstance(n, ast.Call) and isinstance(n.func, ast.Attribute) and n.func.attr == "keys":
                                it = n.func.value
                            elif isinstance(n, ast.Call) and norm(n.func) in ("list", "set", "len", "sorted", "tuple") and n.args:
                                it = n.args[0]
                            if it is not None and norm(it) in (me, me + "()"):
                                consumer = g
                    if consumer is not None:
                        out.append((f, d, norm(acc[0].slice), consumer))
    return out


@rule("R-DDKEY")
def r_ddkey(E):
    pm = E.pm
    res = RuleResult("R-DDKEY", "when the keys of a grouping dict are read as the list of groups (the services installed on a "
                                "server), every candidate gets its key — not only those that have at least one item: a "
                                "defaultdict entry touched only inside the loop over the items does not exist for a group "
                                "without items")
    for mod, (rel, tree, src) in sorted(pm.modules.items()):
        res.instances += len([n for n in ast.walk(tree) if isinstance(n, ast.Call) and norm(n.func).split(".")[-1] == "defaultdict"])
        for f, d, key, consumer in lazily_keyed_defaultdicts(tree):
            res.findings.append(Finding(
                "R-DDKEY", f"{rel}:{f.name} :: {d}[{key}]",
                f"{f.name} only creates `{d}[{key}]` inside the loop over the items of `{key}`, so a `{key}` without items is "
                f"not a key of the returned dict — and {consumer.name} reads the keys of self.{f.name} as the list of all of "
                f"them: the ones without items are missing (a service without jobs is not installed on its server any "
                f"more: its base consumption is not reserved)", rel, f.lineno, f.name, {"clauses": _area(rel)}))
    pos = lazily_keyed_defaultdicts(set_parents(ast.parse(_DK_POSITIVE)))
    neg = lazily_keyed_defaultdicts(set_parents(ast.parse(_DK_NEGATIVE)))
    if len(pos) != 1 or neg:
        raise AnalysisError(f"R-DDKEY: embedded examples: {len(pos)} of 1 positive recognised, {len(neg)} false reports")
    res.instances += 1
    res.samples = [{"embedded_positive_examples_recognised": 1, "embedded_twins_silent": True}]
    res.floor = 1
    return res


# ---------------------------------------------------------------------------------------------- R-ZIPVALUES
_ZV_POSITIVE = '''
from collections import defaultdict
class Network:
    def data_per_up(self):
        per_up = defaultdict(Empty)
        for job in self.jobs:
            for up in job.usage_patterns:
                per_up[up] += job.data[up]
        return list(per_up.values())
    def update(self):
        ups = self.usage_patterns
        self.total = sum(x * up.intensity for up, x in zip(ups, self.data_per_up()))
'''
_ZV_NEGATIVE = '''
class Network:
    def data_per_up(self):
        usage_patterns = self.usage_patterns
        per_up = {up: Empty() for up in usage_patterns}
        for job in self.jobs:
            for up in job.usage_patterns:
                if up in usage_patterns:
                    per_up[up] += job.data[up]
        return list(per_up.values())
    def update(self):
        ups = self.usage_patterns
        self.total = sum(x * up.intensity for up, x in zip(ups, self.data_per_up()))
    def pairs(self, d):
        return list(zip(d.keys(), d.values()))
'''


def misaligned_dict_values(tree):
    """[(zip call, list expr, dict name, why)]: `zip(A, <values of a dict D>)` — D possibly built in a helper of the class
    that returns `list(D.values())` — pairs the i-th element of A with the i-th *inserted* key of D; that is A's i-th
    element only if D was created with exactly A's elements as keys, in A's order (`{x: … for x in A}`), and never gets
    other keys. A defaultdict, or a dict filled as the keys are met, has the keys that occurred, in the order they occurred"""
    from ..astutil import expanded as _exp_z
    out = []
    for cls in [n for n in ast.walk(tree) if isinstance(n, ast.ClassDef)]:
        meths = {f.name: f for f in cls.body if isinstance(f, ast.FunctionDef)}
        for f in meths.values():
            for z in [c for c in ast.walk(f) if isinstance(c, ast.Call) and isinstance(c.func, ast.Name) and c.func.id == "zip"
                      and len(c.args) == 2]:
                for ai, vi in ((0, 1), (1, 0)):
                    a, v = _exp_z(z.args[ai], f), _exp_z(z.args[vi], f)
                    host, vals = f, v
                    if isinstance(v, ast.Call) and isinstance(v.func, ast.Attribute) and norm(v.func.value) == "self" \
                            and v.func.attr in meths and not v.args:
                        host = meths[v.func.attr]
                        rets = [r.value for r in ast.walk(host) if isinstance(r, ast.Return) and r.value is not None]
                        if len(rets) != 1:
                            continue
                        vals = _exp_z(rets[0], host)
                    if isinstance(vals, ast.Call) and norm(vals.func) in ("list", "tuple") and len(vals.args) == 1:
                        vals = vals.args[0]
                    if not (isinstance(vals, ast.Call) and isinstance(vals.func, ast.Attribute) and vals.func.attr == "values"
                            and isinstance(vals.func.value, ast.Name)):
                        continue
                    d = vals.func.value.id
                    if isinstance(a, ast.Call) and isinstance(a.func, ast.Attribute) and a.func.attr == "keys" \
                            and norm(a.func.value) == d:
                        continue        # zip(d.keys(), d.values()): the same dict on both sides
                    creations = [s for s in ast.walk(host) if isinstance(s, ast.Assign) and len(s.targets) == 1
                                 and isinstance(s.targets[0], ast.Name) and s.targets[0].id == d]
                    if len(creations) != 1:
                        out.append((z, d, "the dict is not created by one statement of the function that returns its values"))
                        continue
                    c0 = creations[0].value
                    a_txt = norm(_exp_z(a, f))
                    if isinstance(c0, ast.DictComp) and len(c0.generators) == 1 and not c0.generators[0].ifs \
                            and norm(c0.key) == norm(c0.generators[0].target) \
                            and norm(_exp_z(c0.generators[0].iter, host)) == a_txt:
                        # created with A's elements, in A's order — later stores must stay within those keys: a store under
                        # a key that is only known to be *some* element is accepted when guarded by membership in A
                        continue
                    out.append((z, d, f"`{d}` is created as `{norm(c0)[:50]}`, not as {{x: … for x in {a_txt}}}"))
    return out


@rule("R-ZIPVALUES")
def r_zipvalues(E):
    pm = E.pm
    res = RuleResult("R-ZIPVALUES", "`zip(A, <values of a dict>)` pairs by position: the dict was created with exactly A's "
                                    "elements as keys, in A's order — not a defaultdict or a dict filled as keys are met, which "
                                    "has the keys that occurred in the order they occurred (a usage pattern without job has "
                                    "no entry, and every later pattern is paired with its neighbour's data)")
    for mod, (rel, tree, src) in sorted(pm.modules.items()):
        res.instances += len([c for c in ast.walk(tree) if isinstance(c, ast.Call) and isinstance(c.func, ast.Name) and c.func.id == "zip"])
        for z, d, why in misaligned_dict_values(tree):
            fn = z
            while fn is not None and not isinstance(fn, ast.FunctionDef):
                fn = getattr(fn, "_parent", None)
            q = fn.name if fn is not None else "<module>"
            res.findings.append(Finding(
                "R-ZIPVALUES", f"{rel}:{q} :: zip with values of {d}",
                f"{q} zips `{norm(z.args[0])[:40]}` with the values of the dict `{d}`, but {why}: the i-th value is the "
                f"i-th key that was *inserted*, which is the i-th element of the list only when the dict was created from "
                f"that very list — an element without entry shifts every later pair", rel, z.lineno, q,
                {"clauses": _area(rel)}))
    pos = misaligned_dict_values(set_parents(ast.parse(_ZV_POSITIVE)))
    neg = misaligned_dict_values(set_parents(ast.parse(_ZV_NEGATIVE)))
    if len(pos) != 1 or neg:
        raise AnalysisError(f"R-ZIPVALUES: embedded examples: {len(pos)} of 1 positive recognised, {len(neg)} false reports")
    res.instances += 1
    res.samples = [{"embedded_positive_examples_recognised": 1, "embedded_twins_silent": True}]
    res.floor = 10
    return res


# ---------------------------------------------------------------------------------------------- R-CHRONO
_CH_POSITIVE = '''
def aligned(a, b):
    common = a.value.index.union(b.value.index, sort=False)
    return a.value.reindex(common, fill_value=0), b.value.reindex(common, fill_value=0)
def merged(parts):
    return pd.concat(parts)
'''
_CH_NEGATIVE = '''
def aligned(a, b):
    common = a.value.index.union(b.value.index)
    return a.value.reindex(common, fill_value=0), b.value.reindex(common, fill_value=0)
def merged(parts):
    return pd.concat(parts).sort_index()
def merged2(parts):
    out = pd.concat(parts)
    out = out.sort_index()
    return out
'''


def unordered_time_indexes(tree):
    """[(node, why)]: an hourly index put together in an order that depends on the operands — `<index>.union(other,
    sort=False)` keeps the left operand's hours first, `pd.concat([...])` keeps the parts one after the other — and not
    sorted again (`.sort_index()` on the result, directly or on the local it is bound to)"""
    out = []
    for fn in [n for n in ast.walk(tree) if isinstance(n, ast.FunctionDef)]:
        for c in [x for x in ast.walk(fn) if isinstance(x, ast.Call) and isinstance(x.func, ast.Attribute)]:
            if c.func.attr == "union" and any(k.arg == "sort" and isinstance(k.value, ast.Constant) and k.value.value is False
                                              for k in c.keywords):
                out.append((c, "index.union(…, sort=False)"))
            if norm(c.func) in ("pd.concat", "pandas.concat"):
                par = getattr(c, "_parent", None)
                chained = isinstance(par, ast.Attribute) and par.attr == "sort_index"
                later = False
                if isinstance(par, ast.Assign) and len(par.targets) == 1 and isinstance(par.targets[0], ast.Name):
                    nm = par.targets[0].id
                    later = any(isinstance(y, ast.Call) and isinstance(y.func, ast.Attribute) and y.func.attr == "sort_index"
                                and norm(y.func.value) == nm for y in ast.walk(fn))
                if not chained and not later:
                    out.append((c, "pd.concat(…) without sort_index()"))
    return out


@rule("R-CHRONO")
def r_chrono(E):
    pm = E.pm
    res = RuleResult("R-CHRONO", "an hourly index assembled from two series is in chronological order whatever the order of "
                                 "the operands: no `index.union(…, sort=False)`, no `pd.concat` left unsorted — the rows of "
                                 "a + b and b + a would come in different orders, and what reads them by position (the first "
                                 "cell that receives the base storage need, a cumulative sum) would give other numbers")
    for mod, (rel, tree, src) in sorted(pm.modules.items()):
        if not (rel.startswith("efootprint/abstract_modeling_classes") or rel.startswith("efootprint/core")):
            continue
        res.instances += len([c for c in ast.walk(tree) if isinstance(c, ast.Call) and isinstance(c.func, ast.Attribute)
                              and (c.func.attr == "union" or norm(c.func) in ("pd.concat", "pandas.concat"))])
        for c, why in unordered_time_indexes(tree):
            fn = c
            while fn is not None and not isinstance(fn, ast.FunctionDef):
                fn = getattr(fn, "_parent", None)
            q = fn.name if fn is not None else "<module>"
            res.findings.append(Finding(
                "R-CHRONO", f"{rel}:{q} :: {why}",
                f"{q}: `{norm(c)[:70]}` ({why}) gives an index whose order depends on which operand comes first: the series "
                f"holds the same value per timestamp, but a + b and b + a list the hours in different orders, and "
                f"positional readers downstream (first cell, cumulative sums) then depend on the order in which objects "
                f"were created or summed", rel, c.lineno, q, {"clauses": _area(rel)}))
    pos = unordered_time_indexes(set_parents(ast.parse(_CH_POSITIVE)))
    neg = unordered_time_indexes(set_parents(ast.parse(_CH_NEGATIVE)))
    if len(pos) != 2 or neg:
        raise AnalysisError(f"R-CHRONO: embedded examples: {len(pos)} of 2 positive recognised, {len(neg)} false reports")
    res.instances += 2
    res.samples = [{"embedded_positive_examples_recognised": 2, "embedded_twins_silent": True}]
    res.floor = 3
    return res
