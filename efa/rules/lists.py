"""List-valued links: R-LISTAPI, R-LISTPAIR, R-LISTSIB, R-LIVE (DESIGN §5.E)."""
import ast

from . import rule
from ..frontend import AnalysisError, norm
from ..report import Finding, RuleResult

LL = "abstract_modeling_classes/list_linked_to_modeling_obj.py"
MU = "abstract_modeling_classes/modeling_update.py"

# mutating methods of the built-in list (Python data model)
LIST_MUTATORS = ["append", "extend", "insert", "pop", "remove", "clear", "sort", "reverse", "__setitem__", "__delitem__",
                 "__iadd__", "__imul__"]
ORDER_ONLY = {"sort", "reverse"}
# which list links are read order-sensitively by some rule (confirmed by reading; anchor re-checked on every run)
ORDER_SENSITIVE = {("UsageJourney", "uj_steps"): "JobBase.compute_hourly_occurrences_for_usage_pattern shifts a job by the "
                                                 "running sum of the preceding steps' user_time_spent"}


def _calls(node):
    out = [n for n in ast.walk(node) if isinstance(n, ast.Call)]
    out.sort(key=lambda c: (c.lineno, c.col_offset))
    return out


def _cls(pm):
    """class node and its methods, private helpers (`_x`) inlined one level into the mutators that call them"""
    from ..astutil import inline_helpers
    rel, c = pm.find_function(LL, "ListLinkedToModelingObj")
    raw = {f.name: f for f in c.body if isinstance(f, ast.FunctionDef)}
    # helpers of the class that are not part of the list API: private ones, and public steps such as
    # `launch_update_from_mutated_copy(mutation)` shared by the mutators. They are spliced into the mutators that call
    # them (two rounds), parameters replaced by the arguments, and what that makes constant is folded
    # (methodcaller("append", v)(copy) -> copy.append(v), getattr(super(), "insert")(*pos, w) -> super().insert(i, w))
    api = set(LIST_MUTATORS) | {"copy", "index", "count", "sort", "reverse", "__iadd__", "__contains__",
                                        "__getitem__", "__iter__", "__len__", "__eq__", "__init__", "after_init",
                                        "set_modeling_obj_container", "to_json", "__repr__", "__str__",
                                        "return_copy_with_same_attributes", "check_value_type"}
    helpers = {n: f for n, f in raw.items() if (n.startswith("_") and not n.startswith("__")) or n not in api}
    ms = {}
    for n, f in raw.items():
        if helpers and n not in helpers:
            g = inline_helpers(f, lambda name: helpers.get(name), max_body=30)
            g = inline_helpers(g, lambda name: helpers.get(name), max_body=30)
            # value-returning steps used inside a larger statement: super().append(self.link(value))
            from ..astutil import hoist_value_helpers
            g = hoist_value_helpers(g, lambda name: helpers.get(name))
            ms[n] = g
        else:
            ms[n] = f
    return rel, c, ms


def _order_sensitive_anchor(pm):
    """the loop over uj_steps with a loop-carried delay that is used before being updated"""
    rel, fn = pm.find_function("core/usage/job.py", "JobBase.compute_hourly_occurrences_for_usage_pattern")
    for loop in [n for n in ast.walk(fn) if isinstance(n, ast.For)]:
        if norm(loop.iter).endswith(".uj_steps"):
            aug = [n for n in loop.body if isinstance(n, ast.AugAssign) and isinstance(n.target, ast.Name)]
            for a in aug:
                used_before = any(isinstance(x, ast.Name) and x.id == a.target.id and x.lineno < a.lineno
                                  for x in ast.walk(loop))
                if used_before:
                    return True
    return False


@rule("R-LISTAPI")
def r_listapi(E):
    pm = E.pm
    res = RuleResult("R-LISTAPI", "every mutating method of the built-in list is overridden by ListLinkedToModelingObj "
                                  "(an inherited mutator changes the model without a ModelingUpdate and without "
                                  "registering reverse links); order-only ones matter when a list link is read in order")
    rel, c, ms = _cls(pm)
    sensitive = _order_sensitive_anchor(pm)
    for m in LIST_MUTATORS:
        res.instances += 1
        if m in ms:
            if len(res.samples) < 4:
                res.samples.append({"mutator": m, "verdict": "overridden"})
            continue
        if m in ORDER_ONLY and not sensitive:
            res.notes.append(f"{m} is inherited but no list link is read order-sensitively any more")
            continue
        why = ("UsageJourney.uj_steps is read in order (" + ORDER_SENSITIVE[("UsageJourney", "uj_steps")] + ")") \
            if m in ORDER_ONLY else "it adds or removes elements"
        res.findings.append(Finding(
            "R-LISTAPI", f"ListLinkedToModelingObj inherits list.{m}",
            f"ListLinkedToModelingObj does not override list.{m}; {why}: calling it changes the model with no "
            f"recomputation and no link bookkeeping", rel, c.lineno, "ListLinkedToModelingObj"))
    res.breakdown = {"overridden": sorted(m for m in LIST_MUTATORS if m in ms),
                     "order_sensitive_list_links": {f"{k[0]}.{k[1]}": v for k, v in ORDER_SENSITIVE.items()} if sensitive else {}}
    res.floor = 12
    return res


ADDERS = {"__setitem__": "value", "append": "value", "insert": "value"}
ATTACH_ARGS = ["self.modeling_obj_container", "self.attr_name_in_mod_obj_container"]


@rule("R-LISTPAIR")
def r_listpair(E):
    pm = E.pm
    res = RuleResult("R-LISTPAIR", "in each list mutator every element handed to the underlying list is a fresh link "
                                   "wrapper attached with the list's own (container, attribute name), every element "
                                   "taken out is the stored element and is detached with (None, None), the type check "
                                   "comes first, and index-taking mutators handle slices")
    rel, c, ms = _cls(pm)
    W = "ListLinkedToModelingObj"
    for m in ("__setitem__", "append", "insert", "extend", "pop", "remove", "clear", "__delitem__", "__imul__"):
        fn = ms.get(m)
        if fn is None:
            continue
        res.instances += 1
        where = f"{W}.{m}"
        t = norm(fn)
        if m in ADDERS:
            first = fn.body[0]
            vparam = fn.args.args[-1].arg
            if not (isinstance(first, ast.Expr) and isinstance(first.value, ast.Call)
                    and norm(first.value.func) == "self.check_value_type" and [norm(a) for a in first.value.args] == [vparam]):
                res.findings.append(Finding("R-LISTPAIR", f"{where} type check",
                                            f"{where} no longer checks the element type before doing anything: a "
                                            f"non-ModelingObject is passed to ModelingUpdate first", rel, fn.lineno, where))
            wrap = [n for n in ast.walk(fn) if isinstance(n, ast.Assign) and isinstance(n.value, ast.Call)
                    and norm(n.value.func) == "ContextualModelingObjectAttribute"]
            sup = [cl for cl in _calls(fn) if norm(cl.func) == f"super().{m}"]
            ok = False
            if wrap and sup:
                wname = wrap[0].targets[0].id if isinstance(wrap[0].targets[0], ast.Name) else None
                from ..astutil import expanded as _exp_l
                handed = norm(_exp_l(sup[0].args[-1], fn)) if sup[0].args else None
                att = [cl for cl in _calls(fn) if isinstance(cl.func, ast.Attribute) and cl.func.attr ==
                       "set_modeling_obj_container" and norm(cl.func.value) == wname]
                from ..astutil import source_order
                rank = source_order(fn)
                # (attached before or after it is stored: nothing observes the difference)
                ok = handed == wname and att and [norm(a) for a in att[-1].args] == ATTACH_ARGS
            if ok:
                # … and it is attached once the list has gone through its update: the wrapper reads the list's container
                # when it is attached, and a list that triggers an update is detached by it — a wrapper attached before that
                # keeps pointing to the container the list has just left (a holder that nothing ever detaches)
                upd = [cl for cl in _calls(fn) if isinstance(cl.func, ast.Name) and cl.func.id == "ModelingUpdate"]
                if upd and rank[id(att[-1])] < min(rank[id(u_)] for u_ in upd):
                    res.findings.append(Finding(
                        "R-LISTPAIR", f"{where} attach before update",
                        f"{where} attaches the new element's wrapper (with the list's current container) before the "
                        f"ModelingUpdate that replaces and detaches this list: the wrapper stays registered on the object as a "
                        f"holder of the old list — a reverse link that no later edit removes", rel, att[-1].lineno, where))
            if not ok:
                res.findings.append(Finding(
                    "R-LISTPAIR", f"{where} attach",
                    f"{where}: the element handed to the underlying list is not a fresh ContextualModelingObjectAttribute "
                    f"attached with (self.modeling_obj_container, self.attr_name_in_mod_obj_container): the "
                    f"object's reverse look-ups will not report this list's holder", rel, fn.lineno, where))
            if m == "__setitem__":
                # slices are rejected or handled before anything happens
                handles_slice = "isinstance(index, slice)" in t
                if not handles_slice:
                    res.findings.append(Finding(
                        "R-LISTPAIR", f"{where} slice",
                        f"{where} treats its index as an int: `lst[i:j] = [...]` runs check_value_type on the list and is "
                        f"refused (ValueError) although slice assignment is list behaviour", rel, fn.lineno, where))
        if m in ("pop", "remove", "clear", "__delitem__"):
            det = [cl for cl in _calls(fn) if isinstance(cl.func, ast.Attribute) and cl.func.attr ==
                   "set_modeling_obj_container" and [norm(a) for a in cl.args] == ["None", "None"]
                   and norm(cl.func.value) != "self"]
            if not det:
                res.findings.append(Finding("R-LISTPAIR", f"{where} detach",
                                            f"{where} removes elements without detaching them (None, None): the removed "
                                            f"object still reports this list's holder as a user", rel, fn.lineno, where))
                continue
            recv = norm(det[-1].func.value)
            params = [a.arg for a in fn.args.args][1:]
            # where does the detached object come from?
            src = None
            for n in ast.walk(fn):
                if isinstance(n, ast.Assign) and len(n.targets) == 1 and norm(n.targets[0]) == recv:
                    src = norm(n.value)
                if isinstance(n, ast.For) and norm(n.target) == recv:
                    src = "for " + norm(n.iter)
            if recv in params and src is None:
                res.findings.append(Finding(
                    "R-LISTPAIR", f"{where} detaches its argument",
                    f"{where} detaches its *argument* `{recv}` instead of the element it took out of the list: called "
                    f"with the model object itself (the natural call; list.remove matches by ==) the update is applied "
                    f"and then AttributeError is raised, and the stored wrapper is never detached", rel,
                    det[-1].lineno, where))
            elif src is not None and src.startswith("self[") and "isinstance(index, slice)" not in t:
                res.findings.append(Finding(
                    "R-LISTPAIR", f"{where} slice",
                    f"{where} detaches `{src}` as if it were one element: with a slice it is a plain list, so "
                    f"`del lst[i:j]` updates the model and then raises AttributeError", rel, det[-1].lineno, where))
            elif len(res.samples) < 4:
                res.samples.append({"mutator": where, "detached": recv, "taken_from": src, "verdict": "stored element"})
    res.floor = 9
    return res


def _shadow_name(fn):
    """the local handed to ModelingUpdate as the new content: ModelingUpdate([[<old>, <shadow>]])"""
    for cl in _calls(fn):
        if isinstance(cl.func, ast.Name) and cl.func.id == "ModelingUpdate" and cl.args and isinstance(cl.args[0], ast.List) \
                and cl.args[0].elts and isinstance(cl.args[0].elts[0], ast.List) and len(cl.args[0].elts[0].elts) == 2:
            x = cl.args[0].elts[0].elts[1]
            if isinstance(x, ast.Name):
                return x.id
    return "copied_list"


def _replay(fn):
    """(operation replayed on the shadow copy, operation applied to the real list) as normalised texts; arguments are
    expanded through single-assignment locals so that `i = self.index(v); super().pop(i)` reads `super().pop(self.index(v))`"""
    from ..astutil import fully_expanded
    sh = _shadow_name(fn)
    A = lambda a: norm(fully_expanded(a, fn))
    shadow = real = None
    # the new content written as an expression: list(self) + [v] is append(v), list(self) + vs is extend(vs)
    for cl in _calls(fn):
        if isinstance(cl.func, ast.Name) and cl.func.id == "ModelingUpdate" and cl.args and isinstance(cl.args[0], ast.List) \
                and cl.args[0].elts and isinstance(cl.args[0].elts[0], ast.List) and len(cl.args[0].elts[0].elts) == 2:
            x = fully_expanded(cl.args[0].elts[0].elts[1], fn)
            if isinstance(x, ast.BinOp) and isinstance(x.op, ast.Add) and norm(x.left) in ("list(self)", "self.copy()", "[*self]"):
                if isinstance(x.right, ast.List) and len(x.right.elts) == 1:
                    shadow = ("append", [norm(x.right.elts[0])])
                else:
                    shadow = ("extend", [norm(x.right.args[0] if isinstance(x.right, ast.Call) and norm(x.right.func) == "list"
                                              and x.right.args else x.right)])
    for n in ast.walk(fn):
        if isinstance(n, ast.Call) and isinstance(n.func, ast.Attribute) and norm(n.func.value) == sh:
            shadow = (n.func.attr, [A(a) for a in n.args])
        if isinstance(n, ast.Assign) and isinstance(n.targets[0], ast.Subscript) and norm(n.targets[0].value) == sh:
            shadow = ("__setitem__", [A(n.targets[0].slice), A(n.value)])
        if isinstance(n, ast.Delete) and isinstance(n.targets[0], ast.Subscript) and norm(n.targets[0].value) == sh:
            shadow = ("__delitem__", [A(n.targets[0].slice)])
        if isinstance(n, ast.AugAssign) and norm(n.target) == sh:
            shadow = ({ast.Mult: "__imul__", ast.Add: "__iadd__"}.get(type(n.op), "?"), [A(n.value)])
        if isinstance(n, ast.Call) and isinstance(n.func, ast.Attribute) and norm(n.func.value) == "super()" \
                and n.func.attr != "__init__":
            real = (n.func.attr, [A(a) for a in n.args])
    # idiom: super().pop(self.index(x)) removes the first element equal to x, i.e. list.remove(x), and hands it back
    if real and real[0] == "pop" and len(real[1]) == 1 and real[1][0].startswith("self.index(") and real[1][0].endswith(")"):
        real = ("remove", [real[1][0][len("self.index("):-1]])
    return shadow, real


@rule("R-LISTSIB")
def r_listsib(E):
    pm = E.pm
    res = RuleResult("R-LISTSIB", "in each list mutator the operation replayed on the shadow copy handed to ModelingUpdate "
                                  "is the same operation, with the same arguments, as the one applied to the list itself")
    rel, c, ms = _cls(pm)
    W = "ListLinkedToModelingObj"
    for m in ("__setitem__", "append", "insert", "extend", "pop", "remove", "clear", "__delitem__", "__imul__"):
        fn = ms.get(m)
        if fn is None:
            continue
        res.instances += 1
        where = f"{W}.{m}"
        shadow, real = _replay(fn)
        mu = [cl for cl in _calls(fn) if isinstance(cl.func, ast.Name) and cl.func.id == "ModelingUpdate"]
        if not mu:
            res.findings.append(Finding("R-LISTSIB", f"{where} no update", f"{where} no longer goes through ModelingUpdate",
                                        rel, fn.lineno, where))
            continue
        new_arg = norm(mu[0].args[0]) if mu[0].args else ""
        if m == "clear":
            # the new content is the empty list, written as a literal or as a copy that is cleared
            ok = real == ("clear", []) and (new_arg.endswith(", []]]") or (
                shadow == ("clear", []) and bool(_shadow_name(fn)) and _shadow_name(fn) in new_arg))
        elif m == "extend":
            loop = next((n for n in ast.walk(fn) if isinstance(n, ast.For)), None)
            from ..astutil import fully_expanded as _fx
            it = norm(_fx(loop.iter, fn)) if loop is not None else ""
            snapshot = it in ("list(values)", "tuple(values)", "[v for v in values]", "values[:]", "values.copy()", "copy(values)") \
                or (it.startswith("[") and it.endswith(" in values]"))
            ok = shadow == ("extend", ["values"]) and loop is not None and (it == "values" or snapshot) and \
                any(norm(cl.func) == "self.append" and [norm(a) for a in cl.args] == [norm(loop.target)] for cl in _calls(loop))
            if ok and not snapshot:
                # the argument may be the list itself (x.extend(x), x += x): appending while iterating over it never ends
                res.findings.append(Finding(
                    "R-LISTSIB", f"{where} replay iterates its argument while appending",
                    f"{where}: the replay loop iterates over `values` itself while appending to the list: for "
                    f"`x.extend(x)` / `x += x` (a Python list doubles) the loop feeds on what it appends and never "
                    f"terminates; it has to iterate over a snapshot (`list(values)`)", rel, loop.lineno, where))
        elif m == "__imul__":
            ok = shadow == ("__imul__", ["n"])
            # the replay on the receiver — which `x.attr *= n` assigns back to the attribute, so it *is* what the model
            # ends up holding — must give n times the initial content: each of the n-1 extensions adds a snapshot taken
            # before the loop (an operand that reads the growing list doubles it every time), and n <= 0 empties the list
            npar = fn.args.args[1].arg if len(fn.args.args) > 1 else "n"
            loops = [l for l in ast.walk(fn) if isinstance(l, ast.For) and isinstance(l.iter, ast.Call)
                     and norm(l.iter.func) == "range" and npar in norm(l.iter)]
            grows = None
            for l in loops:
                for cl in _calls(l):
                    if isinstance(cl.func, ast.Attribute) and cl.func.attr in ("extend", "__iadd__", "append") \
                            and norm(cl.func.value) in ("self", "super()"):
                        if any(isinstance(x, ast.Name) and x.id == "self" for a in cl.args for x in ast.walk(a)):
                            grows = cl
                for a in ast.walk(l):
                    if isinstance(a, ast.AugAssign) and norm(a.target) == "self" and "self" in norm(a.value):
                        grows = a
            empties = any(isinstance(i, ast.If) and npar in norm(i.test) and any(
                isinstance(c2, ast.Call) and isinstance(c2.func, ast.Attribute) and c2.func.attr == "clear" for c2 in _calls(i))
                for i in ast.walk(fn)) or norm(fn).count("super().__imul__") > 0
            if loops and (grows is not None or not empties):
                res.findings.append(Finding(
                    "R-LISTSIB", f"{where} replay content",
                    f"{where}: " + (f"each of the n-1 extensions adds `{norm(grows.args[0] if isinstance(grows, ast.Call) and grows.args else grows)[:40]}`, "
                                    f"which reads the list that is being extended: the content doubles at every step "
                                    f"(x *= 3 holds 4 copies, x *= 4 holds 8)" if grows is not None else
                                    f"no path empties the list for n <= 0 (x *= 0 leaves the content unchanged)")
                    + "; `obj.attr *= n` assigns the receiver back to the attribute, so the model holds that content "
                      "instead of what the Python operation produces", rel, fn.lineno, where))
            elif not loops and "super().__imul__" not in norm(fn):
                res.undecided.append(f"{where}: replay on the receiver not recognised")
        else:
            if shadow is None or real is None:
                ok = False
            else:
                sargs = [a for a in shadow[1]]
                # the real list stores the link wrapper of the value the shadow copy receives
                W0 = "ContextualModelingObjectAttribute("
                rargs = [a[len(W0):-1] if a.startswith(W0) and a.endswith(")") else a for a in real[1]]
                ok = shadow[0] == real[0] == m and sargs == rargs
        if ok and m != "clear" and _shadow_name(fn) not in new_arg and "list(self) +" not in new_arg:
            ok = False
        if not ok:
            res.findings.append(Finding(
                "R-LISTSIB", f"{where} replay",
                f"{where}: the shadow copy handed to ModelingUpdate gets {shadow} while the list itself gets {real}: the "
                f"model ends up holding a list that differs from what the Python operation produces", rel, fn.lineno, where))
        elif len(res.samples) < 5:
            res.samples.append({"mutator": where, "shadow": shadow, "real": real, "verdict": "same operation"})
    # the copy that stands for the previous list in the update (`return_copy_with_same_attributes()`) inherits the
    # receiver's flags: taken after `self.trigger_modeling_updates = False`, it is a list that never propagates anything —
    # and it is that copy the rollback puts back into the model when the update fails
    from ..astutil import source_order as _so_ls
    for m, fn in sorted(ms.items()):
        copies = [c_ for c_ in _calls(fn) if isinstance(c_.func, ast.Attribute) and c_.func.attr == "return_copy_with_same_attributes"
                  and norm(c_.func.value) == "self"]
        if not copies:
            continue
        res.instances += 1
        rank = _so_ls(fn)
        offs = [a_ for a_ in ast.walk(fn) if isinstance(a_, ast.Assign) and any(norm(t_) == "self.trigger_modeling_updates" for t_ in a_.targets)
                and isinstance(a_.value, ast.Constant) and a_.value.value is False]
        first_copy = min(rank.get(id(c_), 10 ** 9) for c_ in copies)
        early = [a_ for a_ in offs if rank.get(id(a_), 10 ** 9) < first_copy]
        if early:
            res.findings.append(Finding(
                "R-LISTSIB", f"{W}.{m} switches its updates off before copying itself",
                f"{W}.{m} sets `self.trigger_modeling_updates = False` before it takes `self.return_copy_with_same_attributes()` "
                f"for the ModelingUpdate: the copy that stands for the previous list carries the flag, and when the update "
                f"fails the rollback installs that copy — a list of the model whose later in-place edits recompute nothing",
                rel, early[0].lineno, f"{W}.{m}"))
    # in every method of the class (the mutators, the helper they may share): the receiver leaves its container only once
    # the ModelingUpdate that can still refuse the change has gone through — detached first, a refused change leaves a
    # model whose list no longer knows its container
    for fn in pm.own_methods(W) if W in pm.classes else []:
        for n in ast.walk(fn):
            for fld in ("body", "orelse", "finalbody"):
                blk = getattr(n, fld, None)
                if not (isinstance(blk, list) and blk and isinstance(blk[0], ast.stmt)):
                    continue
                det = [i for i, st in enumerate(blk) if norm(st) == "self.set_modeling_obj_container(None, None)"]
                upd = [i for i, st in enumerate(blk) if any(isinstance(c_, ast.Call) and isinstance(c_.func, ast.Name)
                                                            and c_.func.id == "ModelingUpdate" for c_ in ast.walk(st))]
                if det and upd:
                    res.instances += 1
                    if min(det) < min(upd):
                        res.findings.append(Finding(
                            "R-LISTSIB", f"{W}.{fn.name} detaches the receiver before the update",
                            f"{W}.{fn.name} detaches the list from its container (`self.set_modeling_obj_container(None, None)`) "
                            f"*before* running the ModelingUpdate that installs the new content: when the update refuses the "
                            f"change (a value of the wrong class, an object of another system) or fails while recomputing, the "
                            f"list the model still holds has lost its container — the refused operation has changed the model",
                            rel, blk[min(det)].lineno, f"{W}.{fn.name}"))
    res.floor = 9
    return res


# operations that can leave the content unchanged (ModelingUpdate then skips the change)
NOOP_POSSIBLE = {"extend": "extend([]), += []", "__imul__": "*= 1", "__setitem__": "lst[i] = lst[i]",
                 "clear": "clear() on an empty list"}


@rule("R-LIVE")
def r_live(E):
    pm = E.pm
    res = RuleResult("R-LIVE", "on normal exit of a list mutator the receiver is still the list installed in, and attached "
                               "to, its container")
    rel, c, ms = _cls(pm)
    # summary 1: ModelingUpdate may skip every change (no-op detection)
    rel2, pc = pm.find_function(MU, "ModelingUpdate.parse_changes_list")
    may_skip = any(isinstance(n, ast.Compare) and len(n.ops) == 1 and isinstance(n.ops[0], ast.Eq)
                   and isinstance(n.left, ast.Name) and isinstance(n.comparators[0], ast.Name) for n in ast.walk(pc)) and \
        any(isinstance(n, ast.Delete) for n in ast.walk(pc))
    # summary 2: when it does not skip, it installs a different list object
    installs_new = any(isinstance(n, ast.Assign) and isinstance(n.value, ast.Call)
                       and norm(n.value.func) == "ListLinkedToModelingObj" and len(n.value.args) == 1
                       for n in ast.walk(pc))
    W = "ListLinkedToModelingObj"
    for m in ("__setitem__", "append", "insert", "extend", "pop", "remove", "clear", "__delitem__", "__imul__"):
        fn = ms.get(m)
        if fn is None:
            continue
        res.instances += 1
        where = f"{W}.{m}"
        iff = next((s for s in fn.body if isinstance(s, ast.If) and norm(s.test) == "self.trigger_modeling_updates"), None)
        if iff is None:
            continue
        mu = [s for s in iff.body if "ModelingUpdate(" in norm(s)]
        det = [s for s in iff.body if norm(s) == "self.set_modeling_obj_container(None, None)"]
        reinstall = any("replace_in_mod_obj_container" in norm(s) or "__dict__" in norm(s) for s in fn.body)
        early_return = any(isinstance(s, ast.Return) for s in iff.body)
        if mu and det and not reinstall and not early_return:
            cases = []
            if may_skip and m in NOOP_POSSIBLE:
                cases.append(f"when the operation changes nothing ({NOOP_POSSIBLE[m]}) ModelingUpdate skips the change, yet "
                             "the receiver — still the installed list — is detached: its elements lose their reverse "
                             "links and the next mutation raises")
            if installs_new:
                cases.append("when the change is applied the model holds a new list object and the receiver is an "
                             "orphan: a caller that kept the reference (jobs = step.jobs; jobs.append(a); "
                             "jobs.append(b)) raises on the second call")
            if cases:
                res.findings.append(Finding(
                    "R-LIVE", f"{where} detaches the receiver",
                    f"{where} unconditionally detaches the receiver after ModelingUpdate: " + "; ".join(cases),
                    rel, det[0].lineno, where))
        elif len(res.samples) < 3:
            res.samples.append({"mutator": where, "verdict": "receiver stays installed"})
    res.breakdown = {"ModelingUpdate_may_skip_a_no_op_change": may_skip, "ModelingUpdate_installs_a_new_list": installs_new}
    res.floor = 9
    return res
