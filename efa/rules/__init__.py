"""Rule registry. Each rule is `fn(engine) -> RuleResult`; results are cached per engine."""
RULES = {}


def rule(name):
    def deco(fn):
        RULES[name] = fn
        fn.rule_name = name
        return fn
    return deco


def run_rule(engine, name):
    if name not in engine._rule_cache:
        from ..frontend import AnalysisError
        from ..report import RuleResult
        try:
            engine._rule_cache[name] = RULES[name](engine)
        except AnalysisError as e:
            # a rule that cannot find what it reads is undecided (the property then fails closed, exit 2) — the other
            # rules of the property still run and report what they find
            r = RuleResult(name, "(the rule could not be evaluated)")
            r.undecided.append(str(e))
            r.instances, r.floor = 0, 0
            engine._rule_cache[name] = r
    return engine._rule_cache[name]


def load_all():
    from . import schedule, prov, operators, framework, lists, tables, narrow, units, degree, structure, cache, closures  # noqa: F401
