"""Rule registry. Each rule is `fn(engine) -> RuleResult`; results are cached per engine."""
RULES = {}


def rule(name):
    def deco(fn):
        RULES[name] = fn
        fn.rule_name = name
        return fn
    return deco


def run_rule(engine, name):
    if name not in engine._rule_cache:
        engine._rule_cache[name] = RULES[name](engine)
    return engine._rule_cache[name]


def load_all():
    from . import schedule, prov, operators, framework, lists, tables, narrow, units, degree, structure, cache, closures  # noqa: F401
